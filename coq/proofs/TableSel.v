(* Proofs about row selection (model/TableSel.v): the model of
   _get_row_indices / Indices / Mask / _RowView.__getitem__ against the naive
   specification sel_spec. *)
From Coq Require Import List Bool Arith ZArith NArith Lia ZifyBool Sorted Permutation.
From XD Require Import lib.ListAux model.Table model.TableSel proofs.TableCache proofs.TableSelAux.
Import ListNotations.
Open Scope Z_scope.

(* ---- occurrences ------------------------------------------------------------- *)

Lemma nth_occurrence_some col n c i :
  nth_occurrence col n c = Some i -> nth_error col i = Some n.
Proof.
  unfold nth_occurrence. set (ps := positions col n 0).
  destruct (_ <? 0); [discriminate|]. intros H. apply nth_error_In in H.
  apply positions_nth in H. now rewrite Nat.sub_0_r in H.
Qed.

Lemma nth_error_nth_N (col : list N) i n : nth_error col i = Some n -> (i < length col)%nat /\ nth i col 0%N = n.
Proof.
  intros H. split; [apply nth_error_Some; congruence | now apply nth_error_nth].
Qed.

Lemma occ_isb_true col k i :
  occ_isb col k i = true <-> nth_occurrence col (nth i col 0%N) k = Some i.
Proof.
  unfold occ_isb. destruct (nth_occurrence _ _ _) as [j|]; [|split; discriminate].
  rewrite Nat.eqb_eq. split; congruence.
Qed.

Lemma get_row_cache_scan col n cnt off :
  get_row_cache (make_cache col) n cnt off =
  option_map (fun i => Z.of_nat i + off) (nth_occurrence col n (match cnt with None => 0 | Some c => c end)).
Proof. apply cache_refines_scan. Qed.

Lemma perm_in_iff {A} (l1 l2 : list A) x : Permutation l1 l2 -> (In x l1 <-> In x l2).
Proof. intros H; split; apply Permutation_in; [exact H | now apply Permutation_sym]. Qed.

Section Sel.
  Variable matches : N -> N -> bool.

  Definition perm_oracle (ord : list N -> list N) : Prop := forall l, Permutation (ord l) l.

  (* ---- names, name lists, span ends ----------------------------------------- *)

  Lemma name_index_spec col nm cnt off : name_index col nm cnt off = scan_name col nm cnt off.
  Proof.
    unfold name_index, scan_name. rewrite get_row_cache_scan.
    destruct (nth_occurrence _ _ _); reflexivity.
  Qed.

  Lemma name_indices_spec col l : name_indices col l = scan_names col l.
  Proof.
    induction l as [|[[nm cnt] off] t IH]; cbn [name_indices scan_names]; auto.
    rewrite name_index_spec, IH. destruct (scan_name _ _ _ _); cbn; auto.
  Qed.

  Lemma endpoint_index_spec col e : endpoint_index col e = scan_endpoint col e.
  Proof.
    destruct e; cbn; auto. rewrite name_index_spec. destruct (scan_name _ _ _ _); reflexivity.
  Qed.

  (* ---- the regular-expression path -------------------------------------------- *)

  Lemma names_plain_use col p m :
    names_plainb matches col = true -> In p col -> In m col -> matches p m = N.eqb p m.
  Proof.
    unfold names_plainb. rewrite forallb_forall. intros H Hp Hm.
    specialize (H p Hp). rewrite forallb_forall in H. specialize (H m Hm).
    now apply eqb_prop in H.
  Qed.

  Definition regex_pred (col : list N) (p : N) (c : option Z) (i : nat) : bool :=
    matches p (nth i col 0%N) && match c with None => true | Some k => occ_isb col k i end.

  Lemma regexp_refines ord col p c o :
    perm_oracle ord -> names_plainb matches col = true ->
    regexp_indices matches ord col p c o =
    map (fun i => i + o) (zpos_filter (length col) (regex_pred col p c)).
  Proof.
    intros Hord Hplain. unfold regexp_indices. destruct c as [k|].
    - rewrite get_row_cache_scan.
      destruct (nth_occurrence col p k) as [j|] eqn:Ej; cbn [option_map].
      + (* the text is an exact row name whose k-th occurrence exists *)
        destruct (nth_error_nth_N _ _ _ (nth_occurrence_some _ _ _ _ Ej)) as [Hj Hpj].
        assert (Hp : In p col) by (rewrite <- Hpj; now apply nth_In).
        assert (E : filter (regex_pred col p (Some k)) (seq 0 (length col)) = [j]).
        { apply incr_ext; [apply incr_filter_seq | repeat constructor |].
          intros x. rewrite filter_In, in_seq. unfold regex_pred. rewrite andb_true_iff, occ_isb_true.
          split.
          - intros ((_ & Hx) & Hm & Ho). left.
            rewrite (names_plain_use col p _ Hplain Hp) in Hm by now apply nth_In.
            apply N.eqb_eq in Hm. rewrite <- Hm in Ho. congruence.
          - intros [<-|[]]. rewrite Hpj. repeat split; auto; try lia.
            rewrite (names_plain_use col p p Hplain Hp Hp). apply N.eqb_refl. }
        unfold zpos_filter. rewrite E. reflexivity.
      + (* regular expression with a count: one row per matching name *)
        f_equal. unfold zpos_filter.
        set (g := fun nn => get_row_cache (make_cache col) nn (Some k) 0).
        set (D := nodup N.eq_dec (filter (matches p) col)).
        assert (Hg : forall nn z, g nn = Some z <-> exists i, nth_occurrence col nn k = Some i /\ z = Z.of_nat i).
        { intros nn z. unfold g. rewrite get_row_cache_scan.
          destruct (nth_occurrence col nn k) as [i|]; cbn [option_map].
          - split; [intros H; inversion H; exists i; split; auto; lia | intros (i' & H & ->); inversion H; f_equal; lia].
          - split; [discriminate | intros (i' & H & _); discriminate]. }
        assert (HD : forall nn, In nn D <-> In nn col /\ matches p nn = true).
        { intros nn. unfold D. rewrite nodup_In, filter_In. tauto. }
        apply zsort_is_incr.
        * apply (Permutation_NoDup (Permutation_sym (fmap_opt_perm g _ _ (Hord D)))).
          apply fmap_opt_NoDup; [apply NoDup_nodup|].
          intros x1 x2 y _ _ H1 H2. apply Hg in H1, H2.
          destruct H1 as (i1 & H1 & ->), H2 as (i2 & H2 & E). apply Nat2Z.inj in E. subst i2.
          apply nth_occurrence_some in H1, H2. congruence.
        * apply incr_filter_seq.
        * intros z. rewrite (perm_in_iff _ _ z (fmap_opt_perm g _ _ (Hord D))).
          rewrite in_fmap_opt, in_map_iff. split.
          -- intros (nn & HnD & Hgn). apply HD in HnD. destruct HnD as [Hin Hm].
             apply Hg in Hgn. destruct Hgn as (i & Hi & ->). exists i. split; auto.
             destruct (nth_error_nth_N _ _ _ (nth_occurrence_some _ _ _ _ Hi)) as [Hlt Hnth].
             rewrite filter_In, in_seq. unfold regex_pred. rewrite Hnth, Hm. cbn [andb].
             split; [lia|]. apply occ_isb_true. now rewrite Hnth.
          -- intros (i & <- & Hi). rewrite filter_In, in_seq in Hi. destruct Hi as ((_ & Hlt) & Hpred).
             unfold regex_pred in Hpred. apply andb_true_iff in Hpred. destruct Hpred as [Hm Ho].
             apply occ_isb_true in Ho. exists (nth i col 0%N). split.
             ++ apply HD. split; auto. apply nth_In. lia.
             ++ apply Hg. exists i; auto.
    - (* plain regular expression: every matching row *)
      f_equal. rewrite (np_where_filter (matches p) 0%N). unfold zpos_filter. f_equal.
      apply filter_ext. intros i. unfold regex_pred. now rewrite andb_true_r.
  Qed.
End Sel.

(* ---- every selector form against the specification --------------------------------- *)

Lemma zpos_filter_ext n p q : (forall i, (i < n)%nat -> p i = q i) -> zpos_filter n p = zpos_filter n q.
Proof.
  intros H. unfold zpos_filter. f_equal. apply filter_ext_in. intros i Hi. apply in_seq in Hi. apply H; lia.
Qed.

Lemma slice_all n : map Z.of_nat (slice_range n None None) = zpos_filter n (fun _ => true).
Proof.
  unfold slice_range, zpos_filter. change (Z.to_nat 0) with 0%nat. rewrite Nat2Z.id, Nat.sub_0_r.
  f_equal. induction (seq 0 n) as [|x l IH]; cbn; auto. now rewrite <- IH.
Qed.

Lemma slice_spec n a b :
  map Z.of_nat (slice_range n a b) =
  zpos_filter n (fun i => (match a with None => 0 | Some x => norm_bound (Z.of_nat n) x end <=? Z.of_nat i) &&
                          (Z.of_nat i <? match b with None => Z.of_nat n | Some x => norm_bound (Z.of_nat n) x end)).
Proof.
  unfold slice_range. apply slice_range_filter.
  - destruct a; [apply norm_bound_range|]; lia.
  - destruct b; [apply norm_bound_range|]; lia.
Qed.

Section Refines.
  Variable matches : N -> N -> bool.
  Variable ord : list N -> list N.
  Hypothesis Hord : perm_oracle ord.

  Lemma span_slice n pa pb :
    match pa with Some p => 0 <= p | None => True end ->
    match pb with Some p => 0 <= p | None => True end ->
    map Z.of_nat (slice_range n pa (option_map (fun x => x + 1) pb)) =
    zpos_filter n (fun i => opt_le_lo pa (Z.of_nat i) && opt_le_hi (Z.of_nat i) pb).
  Proof.
    intros Ha Hb. rewrite slice_spec. apply zpos_filter_ext. intros i Hi.
    unfold opt_le_lo, opt_le_hi, norm_bound.
    destruct pa as [p|], pb as [q|]; cbn [option_map];
      repeat match goal with |- context [if ?c then _ else _] => destruct c eqn:? end; lia.
  Qed.

  Theorem indices_refines t s :
    names_plainb matches (s_idx t) = true -> sel_okb t s = true ->
    indices matches ord t (QOne s) = sel_spec matches t s.
  Proof.
    intros Hplain Hok. unfold indices.
    destruct s as [i|l|m|p c o|l|a b|lo hi cn|lo hi|]; cbn [row_indices sel_spec sbind].
    - reflexivity.
    - reflexivity.
    - f_equal. apply (np_where_filter (fun b : bool => b) false).
    - f_equal. now apply regexp_refines.
    - rewrite name_indices_spec. destruct (scan_names _ _); reflexivity.
    - rewrite !endpoint_index_spec.
      cbn [sel_okb] in Hok. apply andb_true_iff in Hok. destruct Hok as [Hok Hb].
      apply andb_true_iff in Hok. destruct Hok as [_ Ha].
      unfold endpoint_okb in Ha, Hb.
      destruct (scan_endpoint (s_idx t) a) as [pa|e]; cbn [sbind]; [|reflexivity].
      destruct (scan_endpoint (s_idx t) b) as [pb|e]; cbn [sbind]; [|reflexivity].
      f_equal. apply span_slice; [destruct pa | destruct pb]; auto; lia.
    - destruct (aget N.eqb cn (s_cols t)) as [vals|]; [|reflexivity].
      destruct lo as [a|], hi as [b|]; cbn [sbind]; f_equal.
      + apply (np_where_filter (fun v => (a <=? v) && (v <=? b)) 0).
      + rewrite (np_where_filter (fun v => a <=? v) 0). apply zpos_filter_ext. intros i _.
        unfold opt_le_lo, opt_le_hi. now rewrite andb_true_r.
      + apply (np_where_filter (fun v => v <=? b) 0).
      + apply slice_all.
    - f_equal. apply slice_spec.
    - f_equal. apply slice_all.
  Qed.
End Refines.

(* ---- independence of the set-iteration order ------------------------------------------- *)

Section Seeds.
  Variable matches : N -> N -> bool.
  Variables ord1 ord2 : list N -> list N.
  Hypothesis H1 : perm_oracle ord1.
  Hypothesis H2 : perm_oracle ord2.

  Lemma regexp_indices_ord col p c o :
    regexp_indices matches ord1 col p c o = regexp_indices matches ord2 col p c o.
  Proof.
    unfold regexp_indices. destruct c as [k|]; [|reflexivity].
    destruct (get_row_cache _ _ _ _); [reflexivity|]. f_equal.
    apply zsort_of_perm, fmap_opt_perm. etransitivity; [apply H1 | apply Permutation_sym, H2].
  Qed.

  Lemma row_indices_ord t s : row_indices matches ord1 t s = row_indices matches ord2 t s.
  Proof. destruct s; cbn [row_indices]; auto. now rewrite regexp_indices_ord. Qed.

  Lemma make_view_ord ss : forall t abs, make_view matches ord1 t abs ss = make_view matches ord2 t abs ss.
  Proof.
    induction ss as [|s r IH]; intros t abs; cbn [make_view]; auto.
    rewrite row_indices_ord. destruct (row_indices matches ord2 t s); cbn [sbind]; auto.
    destruct (idx_positions _ _); auto.
  Qed.

  Lemma indices_ord t q : indices matches ord1 t q = indices matches ord2 t q.
  Proof. destruct q; cbn [indices]; [now rewrite row_indices_ord | now rewrite make_view_ord]. Qed.

  Theorem seed_independent t q :
    rows matches ord1 t q = rows matches ord2 t q /\
    indices matches ord1 t q = indices matches ord2 t q /\
    mask matches ord1 t q = mask matches ord2 t q.
  Proof.
    repeat split.
    - destruct q; cbn [rows]; [now rewrite row_indices_ord | now rewrite indices_ord].
    - apply indices_ord.
    - unfold mask. now rewrite indices_ord.
  Qed.
End Seeds.

(* ---- rows, indices and mask describe the same rows ---------------------------------------- *)

Definition res_agree {A} (a b : sres A) : Prop :=
  match a, b with Ok x, Ok y => x = y | Err _, Err _ => True | _, _ => False end.

Lemma idx_positions_bound n ix ps : idx_positions n ix = Some ps -> Forall (fun p => (p < n)%nat) ps.
Proof.
  destruct ix as [a b|l]; cbn.
  - intros H; inversion H; subst. rewrite Forall_forall. intros x. apply slice_range_bound.
  - apply wrap_all_bound.
Qed.

Lemma take_table_take t ps qs : Forall (fun q => (q < length ps)%nat) qs ->
  take_table (take_table t ps) qs = take_table t (take 0%nat ps qs).
Proof.
  intros Hf. unfold take_table. cbn [s_idx s_cols]. f_equal.
  - now apply take_take.
  - rewrite map_map. apply map_ext. intros [c l]; cbn [fst snd]. f_equal. now apply take_take.
Qed.

Lemma take_bound (abs ps : list nat) n :
  Forall (fun a => (a < n)%nat) abs -> Forall (fun p => (p < length abs)%nat) ps ->
  Forall (fun a => (a < n)%nat) (take 0%nat abs ps).
Proof.
  intros Ha Hp. rewrite Forall_forall in *. intros x Hx. unfold take in Hx.
  apply in_map_iff in Hx. destruct Hx as (p & <- & Hin). apply Ha, nth_In, Hp, Hin.
Qed.

Lemma slen_take_table t ps : slen (take_table t ps) = length ps.
Proof. unfold slen, take_table; cbn. apply take_length. Qed.

Lemma nth_map_seq (f : nat -> bool) n i : (i < n)%nat -> nth i (map f (seq 0 n)) false = f i.
Proof.
  intros Hi. apply nth_error_nth. rewrite nth_error_map.
  rewrite (nth_error_nth' _ 0%nat) by (now rewrite seq_length). now rewrite seq_nth.
Qed.

Section Views.
  Variable matches : N -> N -> bool.
  Variable ord : list N -> list N.

  Lemma rows_as_indices t q :
    rows matches ord t q = sbind (indices matches ord t q) (fun l => select_rows t (IArr l)).
  Proof.
    destruct q as [s|ss]; [|reflexivity]. cbn [rows indices].
    destruct (row_indices matches ord t s) as [[a b|l]|e]; cbn [sbind]; auto.
    unfold select_rows. cbn [idx_positions]. rewrite wrap_all_nat; auto.
    rewrite Forall_forall. intros x. apply slice_range_bound.
  Qed.

  Lemma mask_of_spec n l ps : wrap_all n l = Some ps ->
    exists m, mask_of n l = Ok m /\ length m = n /\
              forall i, (i < n)%nat -> (nth i m false = true <-> In i ps).
  Proof.
    intros Hw. unfold mask_of. rewrite Hw. eexists; split; [reflexivity|]. split.
    - now rewrite map_length, seq_length.
    - intros i Hi.
      rewrite (nth_map_seq (fun j => existsb (Nat.eqb j) ps) n i Hi). rewrite existsb_exists. split.
      + intros (x & Hx & E). apply Nat.eqb_eq in E. now subst.
      + intros Hin. exists i. split; auto. apply Nat.eqb_refl.
  Qed.

  Theorem views_agree t q :
    match indices matches ord t q with
    | Err e => rows matches ord t q = Err e /\ mask matches ord t q = Err e /\ rows_positions matches ord t q = Err e
    | Ok l =>
        match wrap_all (slen t) l with
        | None => rows matches ord t q = Err EIndex /\ mask matches ord t q = Err EIndex /\
                  rows_positions matches ord t q = Err EIndex
        | Some ps =>
            rows matches ord t q = Ok (take_table t ps) /\
            rows_positions matches ord t q = Ok ps /\
            Forall (fun p => (p < slen t)%nat) ps /\
            exists m, mask matches ord t q = Ok m /\ length m = slen t /\
                      forall i, (i < slen t)%nat -> (nth i m false = true <-> In i ps)
        end
    end.
  Proof.
    rewrite rows_as_indices. unfold mask, rows_positions.
    destruct (indices matches ord t q) as [l|e]; cbn [sbind]; auto.
    unfold select_rows. cbn [idx_positions].
    destruct (wrap_all (slen t) l) as [ps|] eqn:Hw.
    - repeat split; auto; [eapply wrap_all_bound; eauto | now apply mask_of_spec].
    - unfold mask_of. rewrite Hw. auto.
  Qed.

  (* ---- rows[s1, s2] = rows[s1].rows[s2] ---------------------------------------------------- *)

  Theorem compose_pair t s1 s2 :
    res_agree (rows matches ord t (QTup [s1; s2])) (rows_then matches ord t s1 s2).
  Proof.
    unfold rows_then. cbn [rows indices make_view].
    destruct (row_indices matches ord t s1) as [ix1|e]; cbn [sbind]; [|exact I].
    unfold select_rows at 2.
    destruct (idx_positions (slen t) ix1) as [ps1|] eqn:E1; cbn [sbind]; [|exact I].
    pose proof (idx_positions_bound _ _ _ E1) as B1.
    rewrite (take_seq_id _ _ B1).
    destruct (row_indices matches ord (take_table t ps1) s2) as [ix2|e]; cbn [sbind]; [|exact I].
    unfold select_rows at 2.
    destruct (idx_positions (slen (take_table t ps1)) ix2) as [ps2|] eqn:E2; cbn [sbind]; [|exact I].
    pose proof (idx_positions_bound _ _ _ E2) as B2. rewrite slen_take_table in B2.
    cbn [snd]. unfold select_rows. cbn [idx_positions].
    rewrite wrap_all_nat by (apply take_bound; auto).
    cbn [res_agree]. symmetry. now apply take_table_take.
  Qed.

  (* any number of selectors: rows[s, ss...] = rows[s].rows[ss...] *)
  Lemma make_view_inv t0 ss : forall abs,
    Forall (fun a => (a < slen t0)%nat) abs ->
    match make_view matches ord (take_table t0 abs) abs ss with
    | Ok (t', abs') => t' = take_table t0 abs' /\ Forall (fun a => (a < slen t0)%nat) abs'
    | Err _ => True
    end.
  Proof.
    induction ss as [|s r IH]; intros abs Ha; cbn [make_view]; auto.
    destruct (row_indices matches ord (take_table t0 abs) s) as [ix|e]; cbn [sbind]; auto.
    destruct (idx_positions _ ix) as [ps|] eqn:E; auto.
    pose proof (idx_positions_bound _ _ _ E) as B. rewrite slen_take_table in B.
    rewrite take_table_take by exact B. apply IH. now apply take_bound.
  Qed.

  Fixpoint chain (t : stable) (ss : list sel) : sres stable :=
    match ss with
    | [] => Ok t
    | s :: r => sbind (rows matches ord t (QOne s)) (fun t1 => chain t1 r)
    end.

  Lemma make_view_chain ss : forall t abs,
    res_agree (sbind (make_view matches ord t abs ss) (fun v => Ok (fst v))) (chain t ss).
  Proof.
    induction ss as [|s r IH]; intros t abs; cbn [make_view chain rows sbind fst res_agree]; auto.
    destruct (row_indices matches ord t s) as [ix|e]; cbn [sbind res_agree]; [|exact I].
    unfold select_rows. destruct (idx_positions (slen t) ix) as [ps|]; cbn [sbind res_agree]; [apply IH | exact I].
  Qed.

  Theorem compose_many t s ss :
    res_agree (rows matches ord t (QTup (s :: ss))) (chain t (s :: ss)).
  Proof.
    cbn [rows indices make_view chain].
    destruct (row_indices matches ord t s) as [ix|e]; cbn [sbind]; [|exact I].
    unfold select_rows at 2.
    destruct (idx_positions (slen t) ix) as [ps|] eqn:E; cbn [sbind]; [|exact I].
    pose proof (idx_positions_bound _ _ _ E) as B. rewrite (take_seq_id _ _ B).
    pose proof (make_view_inv t ss ps B) as Hinv.
    pose proof (make_view_chain ss (take_table t ps) ps) as Hch.
    destruct (make_view matches ord (take_table t ps) ps ss) as [[t' abs']|e]; cbn [sbind fst snd] in *.
    - destruct Hinv as [-> Hb]. unfold select_rows. cbn [idx_positions]. rewrite wrap_all_nat by exact Hb.
      exact Hch.
    - exact Hch.
  Qed.
End Views.

(* rows[s] selects exactly the rows the specification denotes *)
Theorem rows_refines matches ord t s :
  perm_oracle ord -> names_plainb matches (s_idx t) = true -> sel_okb t s = true ->
  rows matches ord t (QOne s) = sbind (sel_spec matches t s) (fun l => select_rows t (IArr l)).
Proof.
  intros Ho Hp Hk. rewrite rows_as_indices. now rewrite (indices_refines matches ord Ho t s Hp Hk).
Qed.

Lemma perm_oracle_id : perm_oracle (fun l => l).
Proof. intros l. apply Permutation_refl. Qed.

Lemma perm_oracle_rev : perm_oracle (@rev N).
Proof. intros l. apply Permutation_sym, Permutation_rev. Qed.

(* ---- histories: a selection depends on the current index column only -------------------------- *)

Section HistoryProofs.
  Variable matches : N -> N -> bool.
  Variable ord : list N -> list N.

  Lemma hstep_state t o :
    fst (hstep matches ord t o) = set_idx t (edit_col (s_idx t) o).
  Proof.
    assert (Hid : set_idx t (s_idx t) = t) by (now destruct t).
    destruct o as [q|i v|nm cnt off v|vals]; cbn [hstep edit_col].
    - now rewrite Hid.
    - unfold hset_cell, slen. destruct (wrap1 _ i); cbn [fst]; auto.
    - rewrite name_index_spec. destruct (scan_name _ _ _ _) as [i|e]; cbn [fst]; auto.
      unfold hset_cell, slen. destruct (wrap1 _ i); cbn [fst]; auto.
    - unfold slen. destruct (Nat.eqb _ _); cbn [fst]; auto.
  Qed.

  Lemma set_idx_twice t c1 c2 : set_idx (set_idx t c1) c2 = set_idx t c2.
  Proof. reflexivity. Qed.

  (* after any history the table is the original one with the edited index column *)
  Theorem hfinal_edited ops : forall t,
    hfinal matches ord t ops = set_idx t (edited (s_idx t) ops).
  Proof.
    unfold hfinal, edited. induction ops as [|o rest IH]; intros t; cbn [fold_left].
    - now destruct t.
    - rewrite IH, hstep_state. reflexivity.
  Qed.

  Lemma hrun_app ops1 : forall t ops2,
    hrun matches ord t (ops1 ++ ops2) = hrun matches ord t ops1 ++ hrun matches ord (hfinal matches ord t ops1) ops2.
  Proof.
    unfold hfinal. induction ops1 as [|o rest IH]; intros t ops2; cbn [app hrun fold_left]; auto.
    now rewrite IH.
  Qed.

  (* no hidden state: whatever was selected or edited before, a selection
     shows the three views of the table whose index column is the edited one *)
  Theorem select_after_history t ops q :
    let t' := set_idx t (edited (s_idx t) ops) in
    hrun matches ord t (ops ++ [HSel q]) =
    hrun matches ord t ops ++
    [HViews (rows_positions matches ord t' q) (indices matches ord t' q) (mask matches ord t' q)].
  Proof. cbn zeta. rewrite hrun_app, hfinal_edited. reflexivity. Qed.

  (* selections leave the table alone *)
  Lemma sel_no_effect t q : fst (hstep matches ord t (HSel q)) = t.
  Proof. reflexivity. Qed.
End HistoryProofs.

Theorem reselect_spec matches ord t ops s :
  perm_oracle ord ->
  let t' := set_idx t (edited (s_idx t) ops) in
  names_plainb matches (s_idx t') = true -> sel_okb t' s = true ->
  indices matches ord (hfinal matches ord t ops) (QOne s) = sel_spec matches t' s.
Proof. intros Ho t' Hp Hk. rewrite hfinal_edited. now apply indices_refines. Qed.

(* ---- tables with their own regex_flags, several alive at once ------------------------------------- *)

Theorem refines_flags (matches2 : bool -> N -> N -> bool) ord : perm_oracle ord -> forall fold_case t s,
  names_plainb (matches2 fold_case) (s_idx t) = true -> sel_okb t s = true ->
  indices (matches2 fold_case) ord t (QOne s) = sel_spec (matches2 fold_case) t s.
Proof. intros Ho fc. exact (indices_refines (matches2 fc) ord Ho). Qed.

Theorem tables_independent (matches2 : bool -> N -> N -> bool) ord tabs steps i k q ft :
  nth_error steps i = Some (k, q) -> nth_error tabs k = Some ft ->
  nth_error (mrun matches2 ord tabs steps) i = Some (fviews matches2 ord ft q).
Proof.
  intros Hs Ht. unfold mrun. rewrite (map_nth_error _ _ _ Hs). unfold mstep. cbn [fst snd]. now rewrite Ht.
Qed.

(* ---- value ranges over an abstract value type and comparison ---------------------------------------- *)

Lemma np_where_filter_opt {A} (p : A -> bool) (l : list A) :
  np_where p l = zpos_filter (length l) (fun k => match nth_error l k with Some v => p v | None => false end).
Proof.
  destruct l as [|x t]; [reflexivity|].
  rewrite (np_where_filter p x). apply zpos_filter_ext. intros i Hi.
  now rewrite (nth_error_nth' _ x Hi).
Qed.

Theorem range_refines_abstract (V : Type) (le : V -> V -> bool) lo hi col :
  range_view V le lo hi col = range_spec V le lo hi col.
Proof.
  unfold range_view, range_spec, range_indices, in_range.
  destruct lo as [a|], hi as [b|].
  - apply np_where_filter_opt.
  - rewrite np_where_filter_opt. apply zpos_filter_ext. intros i _.
    destruct (nth_error col i); auto. now rewrite andb_true_r.
  - apply np_where_filter_opt.
  - rewrite slice_all. apply zpos_filter_ext. intros i Hi.
    destruct (nth_error col i) eqn:E; auto. apply nth_error_None in E. lia.
Qed.

(* the integer-column selector SRange is the instance V = Z, le = Z.leb *)
Lemma srange_is_instance matches ord t lo hi cn vals :
  aget N.eqb cn (s_cols t) = Some vals -> length vals = slen t ->
  indices matches ord t (QOne (SRange lo hi cn)) = Ok (range_view Z Z.leb lo hi vals).
Proof.
  intros Hc Hl. unfold indices. cbn [row_indices]. rewrite Hc. unfold range_view, range_indices.
  destruct lo, hi; cbn [sbind]; try reflexivity. now rewrite Hl.
Qed.
