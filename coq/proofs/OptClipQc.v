(* The exact-arithmetic facts assumed by proofs/OptClip.v hold in an ordered
   field: they are proved here for the rationals (Qc), which shows that the
   hypotheses of C10_max_step_exact_partial are satisfiable by a non-trivial
   carrier. *)
From Coq Require Import List Bool NArith QArith Qcanon.
From XD Require Import model.Opt.
Import ListNotations.
Open Scope Qc_scope.

Definition qltb (a b : Qc) : bool := if Qclt_le_dec a b then true else false.
Definition qabs (a : Qc) : Qc := if Qclt_le_dec a 0 then - a else a.

Definition qenv : env :=
  mkEnv Qc 0 1 (Q2Qc (1 # 2)) Qcplus Qcminus Qcmult Qcdiv qabs qltb (fun a b => negb (qltb b a))
        0 (Q2Qc 10) (Q2Qc 100) 0 (Q2Qc (-1000)) (Q2Qc 1000)
        (fun k => Some k) (fun _ => 0) (fun _ _ => Some []) (fun j _ _ _ _ => j) (fun x => x) N.eqb.

Lemma qltb_true a b : qltb a b = true <-> a < b.
Proof.
  unfold qltb. destruct (Qclt_le_dec a b) as [H|H]; split; auto; try discriminate.
  intros H'. exfalso. exact (Qcle_not_lt _ _ H H').
Qed.
Lemma qltb_false a b : qltb a b = false <-> b <= a.
Proof.
  unfold qltb. destruct (Qclt_le_dec a b) as [H|H]; split; auto; try discriminate.
  intros H'. exfalso. exact (Qcle_not_lt _ _ H' H).
Qed.

Lemma qabs_mult_nonneg a c : 0 <= c -> qabs (a * c) = qabs a * c.
Proof.
  intros Hc. unfold qabs. destruct (Qclt_le_dec a 0) as [Ha|Ha]; destruct (Qclt_le_dec (a * c) 0) as [Hac|Hac].
  - ring.
  - assert (H : a * c <= 0).
    { replace 0 with (0 * c) by ring. apply Qcmult_le_compat_r; auto. apply Qclt_le_weak; auto. }
    assert (H0 : a * c = 0) by (apply Qcle_antisym; auto).
    replace (- a * c) with (- (a * c)) by ring. rewrite H0. ring.
  - exfalso. assert (H : 0 <= a * c).
    { replace 0 with (0 * c) by ring. apply Qcmult_le_compat_r; auto. }
    exact (Qcle_not_lt _ _ H Hac).
  - reflexivity.
Qed.

Lemma qabs_nonneg a : 0 <= qabs a.
Proof.
  unfold qabs. destruct (Qclt_le_dec a 0) as [H|H]; auto.
  apply Qclt_le_weak in H. apply Qcopp_le_compat in H. exact H.
Qed.

Lemma qdiv_nonneg l x : 0 <= l -> 0 < x -> 0 <= l / x.
Proof.
  intros Hl Hx. apply (Qcmult_lt_0_le_reg_r _ _ x Hx).
  rewrite test_field; [|intros ->; exact (Qclt_not_eq _ _ Hx eq_refl)].
  replace (0 * x) with 0 by ring. exact Hl.
Qed.

Lemma qdiv_le_one l x : l < x -> 0 < x -> l / x <= 1.
Proof.
  intros Hl Hx. apply (Qcmult_lt_0_le_reg_r _ _ x Hx).
  rewrite test_field; [|intros ->; exact (Qclt_not_eq _ _ Hx eq_refl)].
  replace (1 * x) with x by ring. apply Qclt_le_weak; auto.
Qed.

Lemma q_irrefl (a : Qc) : e_ltb qenv a a = false.
Proof. apply qltb_false. apply Qcle_refl. Qed.

Lemma q_clip_self (l o : Qc) :
  e_ltb qenv l (e_abs qenv o) = true -> e_ltb qenv l (e_zero qenv) = false ->
  e_abs qenv (e_mul qenv o (e_div qenv l (e_abs qenv o))) = l.
Proof.
  cbn. intros H1 H2. apply qltb_true in H1. apply qltb_false in H2.
  assert (Hx : 0 < qabs o) by (eapply Qcle_lt_trans; eauto).
  rewrite qabs_mult_nonneg by (apply qdiv_nonneg; auto).
  apply Qcmult_div_r. intros H. rewrite H in Hx. exact (Qclt_not_eq _ _ Hx eq_refl).
Qed.

Lemma q_clip_others (l x o l' : Qc) :
  e_ltb qenv l x = true -> e_ltb qenv l (e_zero qenv) = false -> e_ltb qenv l' (e_abs qenv o) = false ->
  e_ltb qenv l' (e_abs qenv (e_mul qenv o (e_div qenv l x))) = false.
Proof.
  cbn. intros H1 H2 H3. apply qltb_true in H1. apply qltb_false in H2. apply qltb_false in H3. apply qltb_false.
  assert (Hx : 0 < x) by (eapply Qcle_lt_trans; eauto).
  rewrite qabs_mult_nonneg by (apply qdiv_nonneg; auto).
  eapply Qcle_trans; [|exact H3].
  replace (qabs o) with (1 * qabs o) at 2 by ring. rewrite Qcmult_comm.
  apply Qcmult_le_compat_r; [apply qdiv_le_one; auto|apply qabs_nonneg].
Qed.
