(* Several tables in one process (model/TableMulti.v): what a table answers in
   an interleaved run is what it answers alone. *)
From Coq Require Import List Bool Arith ZArith NArith Lia.
From XD Require Import lib.ListAux model.Table model.TableMulti.
Import ListNotations.

Lemma nth_error_upd_same {A} (l : list A) k x y : nth_error l k = Some y -> nth_error (upd l k x) k = Some x.
Proof.
  revert k; induction l as [|a t IH]; intros [|k]; cbn; try discriminate; auto.
Qed.

Lemma nth_error_upd_other {A} (l : list A) k j x : j <> k -> nth_error (upd l k x) j = nth_error l j.
Proof.
  revert k j; induction l as [|a t IH]; intros [|k] [|j] H; cbn; auto; try congruence.
Qed.

Section Proofs.
  Variable split : N -> N -> N * option Z * Z.

  (* the results of the steps addressed to table k in any interleaving with
     steps on other tables are the results of table k's own operations run alone *)
  Lemma resolve_plain tabs o : is_cross o = false -> resolve tabs o = o.
  Proof. destruct o; cbn; auto; discriminate. Qed.

  Theorem tables_independent steps : forall tabs k s,
    forallb (fun st => negb (is_cross (snd st))) steps = true ->
    nth_error tabs k = Some s ->
    results_of k steps (mrun_tabs split tabs steps) = srun split s (ops_of k steps).
  Proof.
    induction steps as [|[j o] rest IH]; intros tabs k s Hnc Hk; cbn [mrun_tabs ops_of results_of srun]; auto.
    cbn [forallb snd] in Hnc. apply andb_true_iff in Hnc. destruct Hnc as [Ho Hrest].
    rewrite (resolve_plain tabs o) by (now apply negb_true_iff).
    destruct (nth_error tabs j) as [sj|] eqn:Ej.
    - cbn [results_of]. destruct (Nat.eqb_spec j k) as [->|Hne].
      + rewrite Hk in Ej. inversion Ej; subst sj. cbn [srun]. f_equal.
        apply IH; auto. eapply nth_error_upd_same; eauto.
      + apply IH; auto. rewrite nth_error_upd_other by congruence. exact Hk.
    - cbn [results_of]. destruct (Nat.eqb_spec j k) as [->|Hne]; [congruence|]. now apply IH.
  Qed.
End Proofs.

(* a cross-table assignment t[index] = u[index] copies values: afterwards an
   edit of u's index column does not reach t (the step on u leaves every other
   table as it was) *)
Lemma step_leaves_others {A} (l : list A) k j x : j <> k -> nth_error (upd l k x) j = nth_error l j.
Proof. apply nth_error_upd_other. Qed.
