(* Specifications of the outer transitions of the optimizer model
   (add_point_to_log, reload, the loop of Optimize.step, step, solve) and the
   invariants behind C09, C10 and C15. *)
From Coq Require Import List Bool Arith NArith ZArith Lia.
From XD Require Import model.Opt proofs.OptBase proofs.OptInner.
Import ListNotations.

Lemma set_last_app {A} (g : A -> A) l x : set_last g (l ++ [x]) = l ++ [g x].
Proof.
  induction l as [|a l IH]; cbn; auto. rewrite IH. destruct (l ++ [x]) eqn:Hl; auto.
  destruct l; discriminate.
Qed.

Lemma nth_error_app_plus {A} (l m : list A) i : nth_error (l ++ m) (i + length l) = nth_error m i.
Proof. rewrite nth_error_app2 by lia. f_equal. lia. Qed.

Lemma skipn_app_len {A} (l m : list A) : skipn (length l) (l ++ m) = m.
Proof. induction l; cbn; auto. Qed.

Section Outer.
  Variable E : env.
  Notation F := (eF E).
  Variable cf : cfg F.
  Notation state := (state F).
  Notation row := (row F).
  Notation lims := (c_lim cf).
  Notation ws := (c_w cf).
  Notation n := (length (c_w cf)).
  Notation inner := (inner E).
  Notation synced := (synced E cf).
  Notation evald := (evald E cf).

  (* a row is truthful: its targets and penalty are those of the user's
     function at the row's knob values (up to the weight round trip
     (k/w)*w of add_point_to_log), with the row's own target mask *)
  Definition truthful (r : row) : Prop :=
    exists kk res, rt_rel E ws (r_knobs r) kk /\ e_f E kk = Some res /\ r_targets r = res /\
                   r_tolmet r = within E cf res /\ r_pen r = e_pen E (merit_out E cf (r_ta r) res).

  Definition row_of (s : state) (r : row) : Prop :=
    r_va r = va s /\ r_ta r = ta s /\ kn_inact E (va s) (knobs s) (r_knobs r).
  Definition good_new (s : state) (r : row) : Prop := truthful r /\ row_of s r.

  Definition frame (s s' : state) : Prop :=
    va s' = va s /\ ta s' = ta s /\ kn_inact E (va s) (knobs s) (knobs s').
  Definition ext_rows (s s' : state) (P : row -> Prop) : Prop :=
    exists more, log s' = log s ++ more /\ Forall P more.
  Definition at_last (s : state) : Prop :=
    exists l rl, log s = l ++ [rl] /\ rt_rel E ws (r_knobs rl) (knobs s).

  Lemma frame_refl s : frame s s.
  Proof. unfold frame; repeat split; auto. apply kn_inact_refl. Qed.
  Lemma frame_trans s1 s2 s3 : frame s1 s2 -> frame s2 s3 -> frame s1 s3.
  Proof.
    unfold frame. intros (A1 & A2 & A3) (B1 & B2 & B3). repeat split; try congruence.
    rewrite A1 in B3. eapply kn_inact_trans; eauto.
  Qed.
  Lemma inner_frame s s' : inner s s' -> frame s s'.
  Proof. unfold OptInner.inner, frame; tauto. Qed.

  Lemma row_of_frame s s' r : frame s s' -> row_of s' r -> row_of s r.
  Proof.
    unfold frame, row_of. intros (A1 & A2 & A3) (B1 & B2 & B3). repeat split; try congruence.
    rewrite A1 in B3. eapply kn_inact_trans; eauto.
  Qed.

  Lemma ext_rows_refl s P : ext_rows s s P.
  Proof. exists []. rewrite app_nil_r. auto. Qed.
  Lemma ext_rows_trans s1 s2 s3 (P Q : row -> Prop) :
    ext_rows s1 s2 P -> ext_rows s2 s3 Q -> (forall r, Q r -> P r) -> ext_rows s1 s3 P.
  Proof.
    intros (m1 & L1 & F1) (m2 & L2 & F2) H. exists (m1 ++ m2). rewrite L2, L1, app_assoc. split; auto.
    apply Forall_app; split; auto. eapply Forall_impl; eauto.
  Qed.

  Definition rt_write (act : list bool) (k : list F) : list F :=
    fst (write_knobs E (c_check cf) act lims (x_to_knobs E cf (knobs_to_x E cf k)) k).

  Lemma rt_write_rel act k : rt_rel E ws k (rt_write act k).
  Proof. unfold rt_write, x_to_knobs, knobs_to_x. apply wk_rt. Qed.

  (* ---- add_point_to_log ------------------------------------------------------- *)
  Lemma add_point_spec tg s :
    post (add_point E cf tg s)
      (fun s' => frame s s' /\ sx s' = sx s /\ mfl s' = mfl s /\ synced s' /\
                 knobs s' = rt_write (va s) (knobs s) /\
                 exists r, log s' = log s ++ [r] /\ r_knobs r = knobs s /\ r_va r = va s /\ r_ta r = ta s /\
                           r_tag r = tg /\ truthful r)
      (fun e s' => frame s s' /\ log s' = log s /\ sx s' = sx s /\ mfl s' = mfl s /\
                   knobs s' = rt_write (va s) (knobs s)).
  Proof.
    unfold add_point. pose proof (eval_spec E cf (knobs_to_x E cf (knobs s)) s) as H.
    destruct (solver_eval E cf (knobs_to_x E cf (knobs s)) s) as [[[y pn] s1]|e s1|]; cbn in *; auto.
    - destruct H as ((A1 & A2 & A3 & A5 & A6 & A7) & (r & B1 & B2 & B3 & B4 & B5) & Hp & Hw).
      stsimpl. unfold frame; stsimpl. repeat split; auto.
      + exists y, r. stsimpl. repeat split; auto.
      + unfold rt_write. rewrite Hw. reflexivity.
      + eexists. split; [rewrite A3; reflexivity|]. cbn. repeat split; auto.
        exists (knobs s1), r. repeat split; auto.
        * replace (knobs s1) with (rt_write (va s) (knobs s)) by (unfold rt_write; rewrite Hw; reflexivity).
          apply rt_write_rel.
        * rewrite Hp, B5. reflexivity.
    - destruct H as ((A1 & A2 & A3 & A5 & A6 & A7) & Hk). stsimpl. unfold frame; stsimpl. repeat split; auto.
  Qed.

  (* ---- reload ----------------------------------------------------------------- *)
  Lemma reload_spec i s :
    post (reload E cf i s)
      (fun s' => exists r r', nth_error (log s) i = Some r /\ va s' = r_va r /\ ta s' = r_ta r /\
                   knobs s' = rt_write (r_va r) (r_knobs r) /\ log s' = log s ++ [r'] /\
                   r_knobs r' = r_knobs r /\ r_va r' = r_va r /\ r_ta r' = r_ta r /\ r_tag r' = 0%N /\ truthful r' /\
                   synced s' /\ sx s' = sx s /\ mfl s' = mfl s)
      (fun e s' => (nth_error (log s) i = None /\ s' = s) \/
                   exists r, nth_error (log s) i = Some r /\ va s' = r_va r /\ ta s' = r_ta r /\
                     knobs s' = rt_write (r_va r) (r_knobs r) /\ log s' = log s /\
                     sx s' = sx s /\ mfl s' = mfl s).
  Proof.
    unfold reload. destruct (nth_error (log s) i) as [r|] eqn:Hn; [|cbn; auto].
    eapply post_weaken; [apply add_point_spec| |].
    - intros s' ((A1 & A2 & A3) & C & D & Sy & K & (r' & L1 & L2 & L3 & L4 & L5 & L6)). stsimpl.
      exists r, r'. repeat split; auto.
    - intros e s' ((A1 & A2 & A3) & B & D & D' & K). stsimpl. right. exists r. repeat split; auto.
  Qed.

  (* ---- the loop of Optimize.step ---------------------------------------------- *)
  Lemma evald_frame' (s s' : state) out :
    evald s out -> knobs s' = knobs s -> ta s' = ta s -> lres s' = lres s -> ltw s' = ltw s -> lpwt s' = lpwt s ->
    evald s' out.
  Proof. apply evald_frame. Qed.

  Lemma restore_x_facts (s1 : state) :
    va (restore_x E cf s1) = va s1 /\ ta (restore_x E cf s1) = ta s1 /\ log (restore_x E cf s1) = log s1 /\
    sx (restore_x E cf s1) = sx s1 /\ mfl (restore_x E cf s1) = mfl s1 /\
    kn_inact E (va s1) (knobs s1) (knobs (restore_x E cf s1)).
  Proof.
    unfold restore_x. destruct (sx s1) eqn:Hs; [|repeat split; auto; apply kn_inact_refl].
    unfold set_knobs_from_x; stsimpl. repeat split; auto. apply wk_inact.
  Qed.

  Lemma step_loop_spec fuel b : forall nn i s,
    synced s -> at_last s ->
    post (step_loop E cf fuel nn i b s)
      (fun s' => frame s s' /\ synced s' /\ at_last s' /\ ext_rows s s' (good_new s))
      (fun e s' => frame s s' /\ ext_rows s s' (good_new s)).
  Proof.
    induction nn as [|nn IH]; intros i s Hsy Hal; cbn [step_loop].
    - cbn. split; [apply frame_refl|]. split; [exact Hsy|]. split; [exact Hal|]. apply ext_rows_refl.
    - set (x := knobs_to_x E cf (knobs s)).
      set (s0 := match sx s with
                 | Some x' => if allclose_masked E (va s) x x' then s else set_sx s (Some x) (map (fun _ => true) x)
                 | None => set_sx s (Some x) (map (fun _ => true) x) end).
      assert (H0 : knobs s0 = knobs s /\ va s0 = va s /\ ta s0 = ta s /\ log s0 = log s).
      { unfold s0. destruct (sx s); [destruct (allclose_masked E (va s) x l)|]; stsimpl; auto. }
      destruct H0 as (K0 & V0 & T0 & L0).
      pose proof (jac_step_spec E cf fuel (this_broyden b i) s0) as Pj.
      destruct (jac_step E cf fuel (this_broyden b i) s0) as [s1|e s1|]; [|clear IH|exact I].
      2:{ cbn in Pj |- *. destruct Pj as ((A1 & A2 & A3 & A5) & _). rewrite K0, V0 in A5.
          destruct (restore_x_facts s1) as (Rv & Rt & Rl & _ & _ & Rk).
          split; [unfold frame; rewrite Rv, Rt; repeat split; try congruence;
                  eapply kn_inact_trans; [exact A5|rewrite <- V0, <- A1; exact Rk]|].
          exists []. rewrite app_nil_r. split; auto; congruence. }
      cbn in Pj. destruct Pj as ((A1 & A2 & A3 & A5) & (x' & y & kp & S1 & S2 & S3 & S4 & S5 & S6 & _)).
      unfold log_step, restore_x. rewrite S1.
      assert (Hk2 : knobs (set_knobs_from_x E cf x' s1) = knobs s1).
      { unfold set_knobs_from_x; stsimpl. rewrite A1. eapply wk_idem; eauto. }
      assert (H2 : va (set_knobs_from_x E cf x' s1) = va s1 /\ ta (set_knobs_from_x E cf x' s1) = ta s1 /\
                   log (set_knobs_from_x E cf x' s1) = log s1 /\
                   lres (set_knobs_from_x E cf x' s1) = lres s1 /\ ltw (set_knobs_from_x E cf x' s1) = ltw s1 /\
                   lpwt (set_knobs_from_x E cf x' s1) = lpwt s1 /\ pen_after (set_knobs_from_x E cf x' s1) = pen_after s1 /\
                   mfl (set_knobs_from_x E cf x' s1) = mfl s1 /\ alpha_last (set_knobs_from_x E cf x' s1) = alpha_last s1).
      { unfold set_knobs_from_x; stsimpl. repeat split; auto. }
      remember (set_knobs_from_x E cf x' s1) as s2 eqn:Es2. clear Es2.
      destruct H2 as (V2 & T2 & L2 & Lr2 & Lw2 & Lp2 & P2 & M2 & Al2).
      set (r := mkRow (knobs s2) (va s2) (ta s2) (pen_after s2) (lres s2) (ltw s2) (map negb (mfl s2)) (alpha_last s2) 0%N).
      set (s3 := set_log s2 (log s2 ++ [r])).
      assert (E2 : evald s2 y) by (eapply evald_frame'; eauto).
      assert (E3 : evald s3 y) by (eapply evald_frame'; eauto; unfold s3; stsimpl; auto).
      assert (F3 : frame s s3).
      { unfold frame, s3; stsimpl. rewrite Hk2, V2, T2. rewrite K0, V0 in A5. repeat split; congruence. }
      assert (Hr : good_new s r).
      { split.
        - destruct E2 as (res & B1 & B2 & B3 & B4 & B5). exists (knobs s2), res. unfold r; cbn. repeat split; auto.
          + apply rt_rel_refl.
          + destruct S2 as (res' & C1 & C2 & C3 & C4 & C5). rewrite Hk2 in B1.
            rewrite C1 in B1. injection B1 as Hres. rewrite ?P2, ?T2, S3, C5, Hres. reflexivity.
        - unfold row_of, r; cbn. rewrite ?V2, ?T2, ?Hk2. rewrite K0, V0 in A5. repeat split; congruence. }
      assert (X3 : ext_rows s s3 (good_new s)).
      { exists [r]. unfold s3; stsimpl. split; [congruence|]. constructor; auto. }
      assert (Al3 : at_last s3).
      { exists (log s2), r. unfold s3; stsimpl. split; auto. unfold r; cbn. apply rt_rel_refl. }
      fold s3. destruct (lpwt s3) eqn:Hl3.
      + cbn. split; [exact F3|]. split; [exists y; auto|]. split; [exact Al3|]. exact X3.
      + eapply post_weaken; [apply (IH (S i) s3)| |].
        * exists y; auto.
        * exact Al3.
        * intros s' (G1 & G3 & G4 & G5).
          split; [exact (frame_trans _ _ _ F3 G1)|]. split; [exact G3|]. split; [exact G4|].
          eapply ext_rows_trans; eauto. intros r0 [Q1 Q2]. split; auto. eapply row_of_frame; eauto.
        * intros e s' (G1 & G5).
          split; [exact (frame_trans _ _ _ F3 G1)|].
          eapply ext_rows_trans; eauto. intros r0 [Q1 Q2]. split; auto. eapply row_of_frame; eauto.
  Qed.

  (* the containers agree with solver.x on every active knob *)
  Definition on_solver_x (s : state) : Prop :=
    exists x, sx s = Some x /\ fst (write_knobs E false (va s) lims (x_to_knobs E cf x) (knobs s)) = knobs s.

  Lemma wk_false_noerr act l kv old : snd (write_knobs E false act l kv old) = false.
  Proof.
    revert l kv old; induction act as [|a act IH]; intros [|l0 l] [|v kv] [|o old]; cbn; auto.
    specialize (IH l kv old). destruct (write_knobs E false act l kv old); cbn in *. destruct a; auto.
  Qed.

  (* "except Exception: self.set_knobs_from_x(self.solver.x); raise": when the loop of
     Optimize.step fails, the containers are on the last accepted point solver.x *)
  Lemma step_loop_err_on_x fuel b : forall nn i s e s',
    step_loop E cf fuel nn i b s = Err e s' -> on_solver_x s'.
  Proof.
    induction nn as [|nn IH]; intros i s e s'; cbn [step_loop]; [discriminate|].
    set (x := knobs_to_x E cf (knobs s)).
    set (s0 := match sx s with
               | Some x' => if allclose_masked E (va s) x x' then s else set_sx s (Some x) (map (fun _ => true) x)
               | None => set_sx s (Some x) (map (fun _ => true) x) end).
    assert (Hs0 : exists x0, sx s0 = Some x0).
    { unfold s0. destruct (sx s) eqn:Hs; [destruct (allclose_masked E (va s) x l)|]; stsimpl; eauto. }
    destruct Hs0 as [x0 Hs0].
    pose proof (jac_step_spec E cf fuel (this_broyden b i) s0) as Pj.
    destruct (jac_step E cf fuel (this_broyden b i) s0) as [s1|e1 s1|]; [| |discriminate].
    - destruct (lpwt (log_step E cf s1)); [discriminate|]. apply IH.
    - intros H. inversion H; subst e1 s'. cbn in Pj. destruct Pj as (_ & X & _).
      assert (Hs1 : sx s1 = Some x0) by congruence.
      exists x0. unfold restore_x. rewrite Hs1. unfold set_knobs_from_x; stsimpl. split; auto.
      pose proof (wk_false_noerr (va s1) lims (x_to_knobs E cf x0) (knobs s1)) as Hn.
      destruct (write_knobs E false (va s1) lims (x_to_knobs E cf x0) (knobs s1)) as [k' e'] eqn:Hw.
      cbn in Hn |- *. subst e'. eapply wk_idem; eauto.
  Qed.

  (* ---- Optimize.step between the temporary flag changes ----------------------- *)
  Lemma last_of_app {A} (l1 N l : list A) x :
    l1 ++ N = l ++ [x] -> N <> [] -> nth_error N (pred (length N)) = Some x.
  Proof.
    intros H Hn. destruct (exists_last Hn) as (N' & y & ->).
    rewrite app_assoc in H. apply app_inj_tail in H. destruct H as [_ ->].
    rewrite app_length; cbn. replace (pred (length N' + 1)) with (length N') by lia.
    rewrite nth_error_app2 by lia. rewrite Nat.sub_diag. reflexivity.
  Qed.

  Definition retag (r : row) : row :=
    mkRow (r_knobs r) (r_va r) (r_ta r) (r_pen r) (r_targets r) (r_tolmet r) (r_hit r) (r_alpha r) 1%N.

  Lemma truthful_retag r : truthful r -> truthful (retag r).
  Proof. intros (kk & res & H). exists kk, res. exact H. Qed.

  Lemma step_core_spec fuel nn tb b s :
    post (step_core E cf fuel nn tb b s)
      (fun s' => frame s s' /\ synced s' /\ at_last s' /\
         exists r0 M extra, log s' = log s ++ (r0 :: M) ++ extra /\ r_knobs r0 = knobs s /\
           Forall (good_new s) ((r0 :: M) ++ extra) /\
           (tb = true -> lpwt s' = true \/
              exists rb, nth_error (r0 :: M) (argmin E (map r_pen (r0 :: M))) = Some rb /\
                         rt_rel E ws (r_knobs rb) (knobs s')))
      (fun e s' => frame s s' /\ ext_rows s s' (good_new s)).
  Proof.
    unfold step_core.
    eapply post_bind'; [apply add_point_spec| |].
    { intros e s' (A1 & A2 & _). split; auto. exists []. rewrite app_nil_r; auto. }
    intros s1 (F1 & X1 & M1 & Sy1 & K1 & (r0 & L1 & Rk & Rv & Rt & Rg & Tr)).
    assert (G0 : good_new s r0).
    { split; auto. unfold row_of. rewrite Rk, Rv, Rt. repeat split; auto. apply kn_inact_refl. }
    assert (Al1 : at_last s1).
    { exists (log s), r0. split; auto. rewrite Rk, K1. apply rt_write_rel. }
    assert (Hstart : pred (length (log s1)) = length (log s)).
    { rewrite L1, app_length; cbn. lia. }
    rewrite Hstart.
    eapply post_bind'; [apply (step_loop_spec fuel b nn 0 s1 Sy1 Al1)| |].
    { intros e s' (A1 & A3). split; [exact (frame_trans _ _ _ F1 A1)|].
      eapply ext_rows_trans; [exists [r0]; split; [exact L1|constructor; auto]|exact A3|].
      intros r [Q1 Q2]. split; auto. eapply row_of_frame; eauto. }
    intros s2 (F2 & Sy2 & Al2 & (M & L2 & FM)).
    assert (F02 : frame s s2) by exact (frame_trans _ _ _ F1 F2).
    assert (L02 : log s2 = log s ++ r0 :: M). { rewrite L2, L1, <- app_assoc. reflexivity. }
    assert (FM' : Forall (good_new s) (r0 :: M)).
    { constructor; auto. eapply Forall_impl; [|exact FM]. intros r [Q1 Q2]. split; auto. exact (row_of_frame _ _ _ F1 Q2). }
    assert (Hok2 : (tb = true -> lpwt s2 = true \/
                      argmin E (map r_pen (r0 :: M)) = pred (length (map r_pen (r0 :: M)))) ->
              frame s s2 /\ synced s2 /\ at_last s2 /\
                 exists r0 M extra, log s2 = log s ++ (r0 :: M) ++ extra /\ r_knobs r0 = knobs s /\
                   Forall (good_new s) ((r0 :: M) ++ extra) /\
                   (tb = true -> lpwt s2 = true \/
                    exists rb, nth_error (r0 :: M) (argmin E (map r_pen (r0 :: M))) = Some rb /\
                               rt_rel E ws (r_knobs rb) (knobs s2))).
    { intros Hc. split; [exact F02|]. split; [exact Sy2|]. split; [exact Al2|].
      exists r0, M, []. rewrite app_nil_r. split; [exact L02|]. split; [exact Rk|]. split; [exact FM'|].
      intros Ht. destruct (Hc Ht) as [Hl|Ha]; [left; exact Hl|]. right.
      destruct Al2 as (l & rl & Hl & Hrt). exists rl. split; auto.
      rewrite Ha, map_length. eapply last_of_app; [rewrite <- L02; exact Hl|discriminate]. }
    destruct (tb && negb (lpwt s2)) eqn:Htb.
    2:{ cbn. apply Hok2. intros ->. cbn in Htb. destruct (lpwt s2); [auto|discriminate]. }
    apply andb_true_iff in Htb. destruct Htb as [-> Hl2].
    rewrite L02, skipn_app_len.
    destruct (Nat.eqb (argmin E (map r_pen (r0 :: M))) (pred (length (map r_pen (r0 :: M))))) eqn:Hab.
    { apply Nat.eqb_eq in Hab. cbn. apply Hok2. auto. }
    clear Hok2.
    eapply post_bind'; [apply reload_spec| |].
    { intros e s' [[Hn ->]|(rb & Hn & V & T & K & L & _)].
      - split; [exact F02|]. exists (r0 :: M). split; auto.
      - rewrite L02, nth_error_app_plus in Hn.
        assert (Gb : good_new s rb) by (eapply Forall_forall; [exact FM'|eapply nth_error_In; eauto]).
        destruct Gb as [_ (W1 & W2 & W3)].
        split.
        + unfold frame. rewrite V, T, K. repeat split; auto. eapply kn_inact_trans; [exact W3|].
          unfold rt_write. rewrite W1. apply wk_inact.
        + exists (r0 :: M). rewrite L. split; auto. }
    intros s3 (rb & r' & Hn & V & T & K & L & Q1 & Q2 & Q3 & Q4 & Q5 & Sy3 & _).
    rewrite L02, nth_error_app_plus in Hn.
    assert (Gb : good_new s rb) by (eapply Forall_forall; [exact FM'|eapply nth_error_In; eauto]).
    destruct Gb as [_ (W1 & W2 & W3)].
    cbn. rewrite L, set_last_app. stsimpl.
    split.
    { unfold frame; stsimpl. rewrite V, T, K. repeat split; auto. eapply kn_inact_trans; [exact W3|].
      unfold rt_write. rewrite W1. apply wk_inact. }
    split.
    { destruct Sy3 as (out & Ev). exists out. eapply evald_frame'; eauto. }
    split.
    { exists (log s2), (retag r'). stsimpl. split; auto. cbn. rewrite Q1, K. apply rt_write_rel. }
    exists r0, M, [retag r']. split; [rewrite L02, <- app_assoc; reflexivity|]. split; [exact Rk|].
    split.
    { change (r0 :: M ++ [retag r']) with ((r0 :: M) ++ [retag r']).
      apply Forall_app; split; auto. constructor; auto. split; [apply truthful_retag; auto|].
      unfold row_of; cbn. rewrite Q1, Q2, Q3. repeat split; auto. }
    intros _. right. exists rb. split; auto. rewrite K. apply rt_write_rel.
  Qed.

  (* ---- enable / disable ---------------------------------------------------------- *)
  Definition same_data (s s' : state) : Prop :=
    knobs s' = knobs s /\ log s' = log s /\ sx s' = sx s /\ mfl s' = mfl s /\
    lpwt s' = lpwt s /\ lres s' = lres s /\ ltw s' = ltw s.
  Lemma same_data_refl s : same_data s s.
  Proof. unfold same_data; repeat split; auto. Qed.
  Lemma same_data_trans s1 s2 s3 : same_data s1 s2 -> same_data s2 s3 -> same_data s1 s3.
  Proof. unfold same_data. intros (A1&A2&A4&A5&A6&A7&A8) (B1&B2&B4&B5&B6&B7&B8). repeat split; congruence. Qed.

  Lemma able_data st t v vn s : same_data s (able E cf st t v vn s).
  Proof. unfold able, same_data; stsimpl. repeat split; auto. Qed.
  Lemma able_va st t v vn s :
    va (able E cf st t v vn s) = set_flags E (c_vname cf) st vn (set_flags E (c_vtag cf) st v (va s)).
  Proof. reflexivity. Qed.
  Lemma able_ta st t v vn s : ta (able E cf st t v vn s) = set_flags E (c_ttag cf) st t (ta s).
  Proof. reflexivity. Qed.
  Lemma able_none st s : able E cf st None None None s = s.
  Proof. destruct s; reflexivity. Qed.

  Lemma pre_flags_data a s : same_data s (pre_flags E cf a s).
  Proof. unfold pre_flags. repeat (eapply same_data_trans; [|apply able_data]). apply same_data_refl. Qed.
  Lemma post_flags_data a s : same_data s (post_flags E cf a s).
  Proof. unfold post_flags. repeat (eapply same_data_trans; [|apply able_data]). apply same_data_refl. Qed.
  Lemma pre_none s : pre_flags E cf no_args s = s.
  Proof. unfold pre_flags, no_args; cbn. rewrite !able_none. reflexivity. Qed.
  Lemma post_none s : post_flags E cf no_args s = s.
  Proof. unfold post_flags, no_args; cbn. rewrite !able_none. reflexivity. Qed.

  (* the flags after post_flags depend on the flags before only *)
  Lemma post_flags_flags a s1 s2 : va s1 = va s2 -> ta s1 = ta s2 ->
    va (post_flags E cf a s1) = va (post_flags E cf a s2) /\ ta (post_flags E cf a s1) = ta (post_flags E cf a s2).
  Proof. intros Hv Ht. unfold post_flags. rewrite !able_va, !able_ta. cbn. rewrite Hv, Ht. auto. Qed.

  (* ---- _clip_to_limits before the steps (check_limits=False) --------------------------- *)
  Lemma clip_knobs_inact act l k : kn_inact E act k (clip_knobs E act l k).
  Proof.
    revert l k; induction act as [|a act IH]; intros [|l0 l] [|v k]; cbn; auto;
      try (split; [auto|apply kn_inact_refl]).
    split; [intros ->; reflexivity|apply IH].
  Qed.
  Lemma clip_knobs_length act l k : length (clip_knobs E act l k) = length k.
  Proof. revert l k; induction act as [|a act IH]; intros [|l0 l] [|v k]; cbn; auto. Qed.

  Lemma pre_clip_facts s :
    va (pre_clip E cf s) = va s /\ ta (pre_clip E cf s) = ta s /\ log (pre_clip E cf s) = log s /\
    sx (pre_clip E cf s) = sx s /\ mfl (pre_clip E cf s) = mfl s /\
    kn_inact E (va s) (knobs s) (knobs (pre_clip E cf s)).
  Proof.
    unfold pre_clip. destruct (c_check cf); stsimpl; repeat split; auto; try apply kn_inact_refl.
    apply clip_knobs_inact.
  Qed.
  Lemma pre_clip_frame s : frame s (pre_clip E cf s).
  Proof. destruct (pre_clip_facts s) as (V & T & _ & _ & _ & K). unfold frame. auto. Qed.
  Lemma pre_clip_checked s : c_check cf = true -> pre_clip E cf s = s.
  Proof. unfold pre_clip. intros ->. reflexivity. Qed.

  Lemma opt_step_no_args fuel k tb b s :
    opt_step E cf fuel k tb no_args b s = step_core E cf fuel k tb b (pre_clip E cf s).
  Proof.
    unfold opt_step. rewrite pre_none. destruct (step_core E cf fuel k tb b (pre_clip E cf s)); cbn; rewrite ?post_none; reflexivity.
  Qed.

  (* ---- solve ---------------------------------------------------------------------- *)
  Definition ext_truth (s s' : state) : Prop :=
    exists more, log s' = log s ++ more /\ Forall truthful more.

  Lemma ext_rows_truth s s' : ext_rows s s' (good_new s) -> ext_truth s s'.
  Proof. intros (m & L & Fm). exists m. split; auto. eapply Forall_impl; [|exact Fm]. intros r [H _]; exact H. Qed.

  Lemma solve_spec fuel nn tb b s :
    post (solve E cf fuel nn tb b s)
      (fun s' => frame s s' /\ synced s' /\ (c_assert cf = true -> lpwt s' = true) /\
                 ext_truth s s')
      (fun e s' => ext_truth s s' /\
         (c_restore cf = false -> frame s s') /\
         (c_restore cf = true -> forall r0 rest, log s = r0 :: rest ->
            va s' = r_va r0 /\ ta s' = r_ta r0 /\ knobs s' = rt_write (r_va r0) (r_knobs r0))).
  Proof.
    unfold solve.
    set (k := match nn with Some k => k | None => c_nmax cf end).
    set (x := knobs_to_x E cf (knobs s)).
    set (s0 := set_sx s (Some x) (map (fun _ => true) x)).
    assert (D0 : knobs s0 = knobs s /\ va s0 = va s /\ ta s0 = ta s /\ log s0 = log s).
    { unfold s0; stsimpl; auto. }
    destruct D0 as (K0 & V0 & T0 & L0).
    destruct (pre_clip_facts s0) as (Vc & Tc & Lc & _ & _ & Kc).
    assert (F0 : forall s', frame (pre_clip E cf s0) s' -> frame s s').
    { intros s' Hf. eapply frame_trans; [|exact Hf]. unfold frame. rewrite Vc, Tc, V0, T0. rewrite K0, V0 in Kc. auto. }
    assert (X0 : forall s', ext_rows (pre_clip E cf s0) s' (good_new (pre_clip E cf s0)) -> ext_truth s s').
    { intros s' H. apply ext_rows_truth in H. unfold ext_truth in *. rewrite Lc, L0 in H. exact H. }
    set (body := bind (opt_step E cf fuel k tb no_args b s0)
                      (fun s1 => if c_assert cf && negb (lpwt s1) then Err ERuntime s1 else Ok s1)).
    assert (Hbody : post body
              (fun s' => frame s s' /\ synced s' /\ (c_assert cf = true -> lpwt s' = true) /\
                         ext_truth s s')
              (fun e s' => frame s s' /\ ext_truth s s')).
    { unfold body. rewrite opt_step_no_args.
      eapply post_bind'; [apply step_core_spec| |].
      - intros e s' (A1 & A2). split; auto.
      - intros s1 (A1 & A3 & A4 & (r0 & M & extra & L & _ & Fm & _)).
        assert (Xt : ext_truth s s1).
        { apply X0. exists ((r0 :: M) ++ extra). split; auto. }
        destruct (c_assert cf && negb (lpwt s1)) eqn:Hc; cbn.
        + split; auto.
        + split; auto. split; auto. split; auto.
          intros Ha. rewrite Ha in Hc. cbn in Hc. destruct (lpwt s1); auto; discriminate. }
    destruct body as [s1|e s1|] eqn:Hb; cbn in Hbody; cbn; auto.
    destruct Hbody as (Fr & (more & Lm & Fm)).
    destruct (c_restore cf) eqn:Hr.
    - pose proof (reload_spec 0 s1) as Hrl.
      destruct (reload E cf 0 s1) as [s2|e' s2|]; cbn in Hrl; cbn; auto.
      + destruct Hrl as (r & r' & Hn & V & T & K & L & Q1 & Q2 & Q3 & Q4 & Q5 & _).
        split; [|split; [discriminate|]].
        * exists (more ++ [r']). rewrite L, Lm, app_assoc. split; auto. apply Forall_app; split; auto.
        * intros _ r0 rest Hl0. rewrite Lm, Hl0 in Hn. cbn in Hn. inversion Hn; subst. auto.
      + destruct Hrl as [[Hn ->]|(r & Hn & V & T & K & L & _)].
        * split; [exists more; auto|]. split; [discriminate|]. intros _ r0 rest Hl0.
          rewrite Lm, Hl0 in Hn. cbn in Hn. discriminate.
        * split; [exists more; split; auto; congruence|]. split; [discriminate|]. intros _ r0 rest Hl0.
          rewrite Lm, Hl0 in Hn. cbn in Hn. inversion Hn; subst. auto.
    - split; [exists more; auto|]. split; auto. discriminate.
  Qed.
End Outer.
