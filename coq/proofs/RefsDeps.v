(* C05: _get_dependencies returns exactly the item/attribute locations that
   occur in the expression, always as a set; the value of an expression is a
   function of the values of those locations.  Generic in the table: only
   [fields_ok T = true] is used. *)
From Coq Require Import List ZArith NArith Bool Lia.
From XD Require Import model.RefSyntax model.RefTables model.Refs model.RefsOk proofs.RefsBase.
Import ListNotations.

Definition olist (a : acc) : list term := match a with Some s => s | None => [] end.

Lemma flat_map_map {A B C} (f : B -> list C) (g : A -> B) l :
  flat_map f (map g l) = flat_map (fun x => f (g x)) l.
Proof. induction l as [|x l IH]; cbn; [reflexivity|]. now rewrite IH. Qed.

Lemma slot_beq_eq a b : slot_beq a b = true -> a = b.
Proof. destruct a, b; cbn; try discriminate; auto; intros H; apply field_beq_eq in H; now subst. Qed.

Lemma not_ref_const t : is_ref t = false -> exists v, t = TConst v.
Proof. destruct t; try discriminate; eauto. Qed.

Section DepsProof.
  Variable T : tables.
  Hypothesis HF : fields_ok T = true.

  Lemma fo_specials : specials_ok T = true.
  Proof. pose proof HF as H. unfold fields_ok in H. now apply andb_prop in H as [H _]. Qed.
  Lemma fo_class ci : In ci (t_classes T) -> class_deps_ok T ci = true.
  Proof.
    pose proof HF as H. unfold fields_ok in H. apply andb_prop in H as [_ H].
    rewrite forallb_forall in H. apply H.
  Qed.

  (* the statement proved for every sub-expression, for every `out` *)
  Definition good (x : term) : Prop :=
    is_ref x = true -> wf T x = true ->
    forall out, exists s', deps_acc T x out = Some (Some s') /\
                           forall y, In y s' <-> In y (olist out) \/ In y (occ x).

  Definition mkc (x : term) : fchild := C1 (is_ref x) (deps_acc T x).
  Definition mkl (l : list term) : list (bool * dfun) := map (fun p => (is_ref p, deps_acc T p)) l.

  Lemma call_child_good x g s : good x -> wf T x = true -> g = true \/ is_ref x = true ->
    exists s', call_child (is_ref x) g (deps_acc T x) (Some s) = Some (Some s') /\
               forall y, In y s' <-> In y s \/ In y (occ x).
  Proof.
    intros Hg Hw Hor. unfold call_child. destruct (is_ref x) eqn:Hr.
    - destruct (Hg Hr Hw (Some s)) as (s' & -> & Hs'). exists s'. split; auto.
    - destruct Hor as [->|]; [|discriminate]. exists s. split; auto.
      destruct (not_ref_const x Hr) as [v ->]. cbn. tauto.
  Qed.

  Lemma call_each_good l s : Forall good l -> forallb (wf T) l = true ->
    exists s', call_each true (mkl l) (Some s) = Some (Some s') /\
               forall y, In y s' <-> In y s \/ In y (flat_map occ l).
  Proof.
    intros HF'. revert s. induction HF' as [|x l Hx _ IH]; intros s Hw.
    - exists s. split; [reflexivity|]. cbn. tauto.
    - cbn in Hw. apply andb_prop in Hw as [Hwx Hwl]. cbn [mkl map call_each].
      destruct (call_child_good x true s Hx Hwx (or_introl eq_refl)) as (s1 & -> & H1).
      destruct (IH s1 Hwl) as (s2 & H2 & H2'). exists s2. split; [exact H2|].
      intros y. rewrite H2', H1. cbn [flat_map]. rewrite in_app_iff. tauto.
  Qed.

  (* ---- slots of a node: what the traversal sees and what it contributes -------------- *)
  Definition contrib (t : term) (s : slot) : list term :=
    match s with
    | S1 f => match get_field t f with FV1 x => occ x | _ => [] end
    | SEach f => match get_field t f with FVlist l => flat_map occ l | _ => [] end
    | SEachSnd f => match get_field t f with FVkw l => flat_map occ (map snd l) | _ => [] end
    | SSelf => [t]
    end.

  Definition slot_child_ok (t : term) (ch : field -> fchild) (s : slot) : Prop :=
    match s with
    | S1 f => exists x, get_field t f = FV1 x /\ ch f = mkc x
    | SEach f => exists l, get_field t f = FVlist l /\ ch f = CList false (mkl l)
    | SEachSnd f => exists l, get_field t f = FVkw l /\ ch f = CList true (mkl (map snd l))
    | SSelf => True
    end.

  Definition slot_sem_ok (t : term) (s : slot) : Prop :=
    match s with
    | S1 f => forall x, get_field t f = FV1 x -> good x
    | SEach f => forall l, get_field t f = FVlist l -> Forall good l
    | SEachSnd f => forall l, get_field t f = FVkw l -> Forall good (map snd l)
    | SSelf => True
    end.

  Lemma deps_acc_unfold t : is_ref t = true ->
    exists ch, deps_acc T t = node_deps T t ch /\
               forall s, In s (required (shape_kind t)) -> slot_child_ok t ch s.
  Proof.
    destruct t as [| l [|] | | | | | | |]; intros Hr; try discriminate;
      (eexists; split; [reflexivity|]); cbn [shape_kind required]; intros s Hin;
      repeat (destruct Hin as [<-|Hin]; [cbn; try (eexists; split; [reflexivity|]); auto|]); try contradiction.
    unfold mkl. now rewrite map_map.
  Qed.

  Lemma occ_contrib t : is_ref t = true ->
    forall y, In y (occ t) <-> exists s, In s (required (shape_kind t)) /\ In y (contrib t s).
  Proof.
    destruct t as [| l [|] | | | | | | |]; intros Hr y; try discriminate; cbn [occ shape_kind required];
      rewrite ?in_app_iff.
    1-2,7: (split; [intros []|intros (s & [] & _)]).
    - split.
      + intros [H|[H|H]]; [exists (S1 FOwner)|exists (S1 FKey)|exists SSelf]; cbn; auto.
      + intros (s & [<-|[<-|[<-|[]]]] & H); cbn in H; auto.
    - split.
      + intros [H|[H|H]]; [exists (S1 FOwner)|exists (S1 FKey)|exists SSelf]; cbn; auto.
      + intros (s & [<-|[<-|[<-|[]]]] & H); cbn in H; auto.
    - split.
      + intros [H|H]; [exists (S1 FLhs)|exists (S1 FRhs)]; cbn; auto.
      + intros (s & [<-|[<-|[]]] & H); cbn in H; auto.
    - split.
      + intros H; exists (S1 FArg); cbn; auto.
      + intros (s & [<-|[]] & H); cbn in H; auto.
    - split.
      + intros [H|H]; [exists (S1 FArg)|exists (SEach FParams)]; cbn; auto.
      + intros (s & [<-|[<-|[]]] & H); cbn in H; auto.
    - rewrite <- (flat_map_map occ snd). split.
      + intros [H|[H|H]]; [exists (S1 FFunc)|exists (SEach FArgs)|exists (SEachSnd FKwargs)]; cbn; auto.
      + intros (s & [<-|[<-|[<-|[]]]] & H); cbn in H; auto.
  Qed.

  Lemma always_ref_is_ref t f x : wf T t = true -> always_ref (shape_kind t) f = true ->
    get_field t f = FV1 x -> is_ref x = true.
  Proof.
    destruct t as [| l [|] | | | | | | |], f; cbn; try discriminate; intros Hw _ [= <-];
      repeat (apply andb_prop in Hw as [Hw ?]); auto.
  Qed.

  Lemma forallb_snd {A B} (f : B -> bool) (l : list (A * B)) :
    forallb (fun p => f (snd p)) l = forallb f (map snd l).
  Proof. induction l as [|x l IH]; cbn; [reflexivity|]. now rewrite IH. Qed.

  Lemma wf_field1 t f x : wf T t = true -> get_field t f = FV1 x -> wf T x = true.
  Proof.
    destruct t as [| l [|] | | | | | | |], f; cbn [get_field wf]; try discriminate; intros Hw [= <-];
      repeat (apply andb_prop in Hw as [Hw ?]); auto.
  Qed.
  Lemma wf_fieldl t f l : wf T t = true -> get_field t f = FVlist l -> forallb (wf T) l = true.
  Proof.
    destruct t as [| ? [|] | | | | | | |], f; cbn [get_field wf]; try discriminate; intros Hw [= <-];
      repeat (apply andb_prop in Hw as [Hw ?]); auto.
  Qed.
  Lemma wf_fieldkw t f l : wf T t = true -> get_field t f = FVkw l -> forallb (wf T) (map snd l) = true.
  Proof.
    destruct t as [| ? [|] | | | | | | |], f; cbn [get_field wf]; try discriminate; intros Hw [= <-];
      repeat (apply andb_prop in Hw as [Hw ?]); rewrite <- forallb_snd; auto.
  Qed.

  (* ---- one step, all steps ------------------------------------------------------------ *)
  Lemma run_step_good t ch st s :
    wf T t = true ->
    step_allowed (shape_kind t) st = true ->
    (forall sl, In sl (required (shape_kind t)) -> slot_child_ok t ch sl /\ slot_sem_ok t sl) ->
    exists s', run_step t ch st (Some s) = Some (Some s') /\
               forall y, In y s' <-> In y s \/ In y (contrib t (step_slot st)).
  Proof.
    intros Hw Hal Hsl. unfold step_allowed in Hal. apply andb_prop in Hal as [Hex Hg].
    apply existsb_exists in Hex as (sl & Hin & Heq). apply slot_beq_eq in Heq.
    destruct (Hsl sl Hin) as [Hch Hsem]. rewrite <- Heq in Hch, Hsem. clear Heq Hin sl.
    destruct st as [f g|f g|f g|]; cbn [step_slot] in *; cbn [run_step contrib].
    - destruct Hch as (x & Hgf & ->). rewrite Hgf. pose proof (Hsem x Hgf) as Hgood.
      pose proof (wf_field1 t f x Hw Hgf) as Hwx. unfold mkc. apply call_child_good; auto.
      apply orb_prop in Hg as [->|Ha]; auto. right. exact (always_ref_is_ref t f x Hw Ha Hgf).
    - destruct Hch as (l & Hgf & ->). rewrite Hgf. pose proof (Hsem l Hgf) as Hgood. subst g.
      apply call_each_good; auto. eapply wf_fieldl; eauto.
    - destruct Hch as (l & Hgf & ->). rewrite Hgf. pose proof (Hsem l Hgf) as Hgood. subst g.
      apply call_each_good; auto. eapply wf_fieldkw; eauto.
    - exists (s ++ [t]). split; auto. intros y. now rewrite in_app_iff.
  Qed.

  Lemma run_steps_good t ch sts s :
    wf T t = true ->
    forallb (step_allowed (shape_kind t)) sts = true ->
    (forall sl, In sl (required (shape_kind t)) -> slot_child_ok t ch sl /\ slot_sem_ok t sl) ->
    exists s', run_steps t ch sts (Some s) = Some (Some s') /\
               forall y, In y s' <-> In y s \/ exists st, In st sts /\ In y (contrib t (step_slot st)).
  Proof.
    intros Hw Hal Hsl. revert s. induction sts as [|st sts IH]; intros s.
    - exists s. split; [reflexivity|]. intros y. split; auto. intros [H|(st & [] & _)]; auto.
    - cbn in Hal. apply andb_prop in Hal as [Ha Hal]. cbn [run_steps].
      destruct (run_step_good t ch st s Hw Ha Hsl) as (s1 & -> & H1).
      destruct (IH Hal s1) as (s2 & H2 & H2'). exists s2. split; auto.
      intros y. rewrite H2', H1. split.
      + intros [[H|H]|(st' & Hin & H)]; auto; right; [exists st|exists st']; cbn; auto.
      + intros [H|(st' & [<-|Hin] & H)]; auto. right; eauto.
  Qed.

  Lemma steps_cover k sts t : steps_ok k sts = true -> k = shape_kind t -> is_ref t = true ->
    forall y, (exists st, In st sts /\ In y (contrib t (step_slot st))) <-> In y (occ t).
  Proof.
    intros Hok -> Hr y. unfold steps_ok in Hok. apply andb_prop in Hok as [Hal Hreq].
    rewrite forallb_forall in Hal, Hreq. rewrite (occ_contrib t Hr). split.
    - intros (st & Hin & Hy). exists (step_slot st). split; auto.
      specialize (Hal st Hin). unfold step_allowed in Hal. apply andb_prop in Hal as [Hex _].
      apply existsb_exists in Hex as (sl & Hsl & Heq). apply slot_beq_eq in Heq. now rewrite Heq.
    - intros (sl & Hin & Hy). specialize (Hreq sl Hin). apply existsb_exists in Hreq as (st & Hst & Heq).
      apply slot_beq_eq in Heq. exists st. split; auto. now rewrite Heq.
  Qed.

  Lemma node_kind_shape t : is_ref t = true -> node_kind (shape_kind t) = true.
  Proof. destruct t as [| ? [|] | | | | | | |]; cbn; auto; discriminate. Qed.

  (* ---- a node whose children are good is good ------------------------------------------- *)
  Lemma node_good t :
    (forall sl, In sl (required (shape_kind t)) -> slot_sem_ok t sl) -> good t.
  Proof.
    intros Hsem Hr Hw out.
    destruct (cls_ok_spec T t (wf_cls_ok T t Hw Hr)) as (c & Hcl & Hk).
    destruct (kind_of_info T c _ Hk) as (ci & _ & Hin & Hid & Hkind).
    pose proof (fo_class ci Hin) as Hok. unfold class_deps_ok in Hok.
    rewrite Hkind, (node_kind_shape t Hr), Hid in Hok. cbn in Hok.
    destruct (deps_of T c) as [tr|] eqn:Edeps; [|discriminate].
    destruct (deps_acc_unfold t Hr) as (ch & -> & Hch).
    assert (Hsl : forall sl, In sl (required (shape_kind t)) -> slot_child_ok t ch sl /\ slot_sem_ok t sl) by auto.
    unfold node_deps. rewrite Hcl, Edeps. unfold run_trav, trav_ok in *.
    change (match out with Some s => s | None => [] end) with (olist out).
    set (cur0 := if tr_init tr then Some (olist out) else out).
    assert (Hcur0 : olist cur0 = olist out) by (unfold cur0; destruct (tr_init tr), out; reflexivity).
    destruct (tr_ret tr) as [| |f] eqn:Eret.
    - (* return out *)
      apply andb_prop in Hok as [Hinit Hsteps]. unfold cur0. rewrite Hinit.
      pose proof Hsteps as Hs2. unfold steps_ok in Hs2. apply andb_prop in Hs2 as [Hal _].
      destruct (run_steps_good t ch (tr_steps tr) (olist out) Hw Hal Hsl) as (s' & -> & Hs').
      exists s'. split; auto. intros y. rewrite Hs'. now rewrite (steps_cover _ _ t Hsteps eq_refl Hr).
    - (* return out or set() *)
      apply andb_prop in Hok as [Hinit Hsteps].
      pose proof Hsteps as Hs2. unfold steps_ok in Hs2. apply andb_prop in Hs2 as [Hal _].
      destruct (tr_init tr) eqn:Ei.
      + unfold cur0.
        destruct (run_steps_good t ch (tr_steps tr) (olist out) Hw Hal Hsl) as (s' & -> & Hs').
        exists s'. split; auto. intros y. rewrite Hs'. now rewrite (steps_cover _ _ t Hsteps eq_refl Hr).
      + cbn in Hinit. destruct (tr_steps tr) as [|? ?] eqn:Est; [|discriminate]. cbn [run_steps].
        exists (olist cur0). split; auto. intros y. rewrite Hcur0.
        rewrite <- (steps_cover _ _ t Hsteps eq_refl Hr y). split; auto.
        intros [H|(st & [] & _)]; auto.
    - (* return self.f._get_dependencies(out) *)
      apply andb_prop in Hok as [Hok Hreq]. apply andb_prop in Hok as [Hns Har].
      destruct (tr_steps tr) as [|? ?]; [|discriminate]. cbn [run_steps].
      destruct (required (shape_kind t)) as [|[g| | |] [|? ?]] eqn:Ereq; try discriminate.
      apply field_beq_eq in Hreq. subst g.
      destruct (Hsl (S1 f) (or_introl eq_refl)) as [(x & Hgf & Hchf) Hsx]. rewrite Hchf. unfold mkc.
      pose proof (Hsx x Hgf) as Hgood. pose proof (wf_field1 t f x Hw Hgf) as Hwx.
      pose proof (always_ref_is_ref t f x Hw Har Hgf) as Hrx. rewrite Hrx.
      destruct (Hgood Hrx Hwx cur0) as (s' & -> & Hs'). exists s'. split; auto.
      intros y. rewrite Hs', Hcur0. rewrite (occ_contrib t Hr). rewrite Ereq. split.
      + intros [H|H]; auto. right. exists (S1 f). cbn. rewrite Hgf. auto.
      + intros [H|(sl & [<-|[]] & H)]; auto. cbn in H. rewrite Hgf in H. auto.
  Qed.

  (* ---- every well-formed expression ---------------------------------------------------------- *)
  Lemma good_const v : good (TConst v).
  Proof. intros Hr; discriminate. Qed.

  Theorem deps_good : forall t, good t.
  Proof.
    induction t using term_ind'; try (apply node_good; cbn [shape_kind required]; intros sl Hin).
    - contradiction.
    - destruct o; cbn in Hin; contradiction.
    - destruct Hin as [<-|[<-|[<-|[]]]]; cbn; auto; now intros x [= <-].
    - destruct Hin as [<-|[<-|[<-|[]]]]; cbn; auto; now intros x [= <-].
    - destruct Hin as [<-|[<-|[]]]; cbn; now intros x [= <-].
    - destruct Hin as [<-|[]]; cbn; now intros x [= <-].
    - contradiction.
    - destruct Hin as [<-|[<-|[]]]; cbn; [now intros x [= <-]|now intros l [= <-]].
    - destruct Hin as [<-|[<-|[<-|[]]]]; cbn; [now intros x [= <-]|now intros l [= <-]|].
      intros l [= <-]. now apply Forall_map.
  Qed.

  (* expr._get_dependencies() of a well-formed expression *)
  Corollary deps_exact t : is_ref t = true -> wf T t = true ->
    exists s, deps T t = Some (Some s) /\ forall y, In y s <-> In y (occ t).
  Proof.
    intros Hr Hw. destruct (deps_good t Hr Hw None) as (s & Hs & Hin). exists s. split; auto.
    intros y. rewrite Hin. cbn. tauto.
  Qed.
End DepsProof.
