(* Expression syntax of the formulas regenerated from xdeps/optimize/optimize.py
   and xdeps/optimize/matrixutils.py (coq/gen/GenOpt.v) for C16: element-wise
   scalar arithmetic, the matrix product of SVD.lstsq with its masking and
   slicing rules, the forward-difference and chain-rule lines.  Plain Coq (no
   MathComp) so that the generated file stays cheap.  Definitions only. *)
From Coq Require Import String List ZArith.
Import ListNotations.

(* element-wise arithmetic on arrays: a variable stands for the element of the
   named array at the current index *)
Inductive aexpr :=
| AVar (v : string)
| ANum (z : Z)                       (* integer-valued literal: 0, 1, 1., 2 *)
| AFirst (v : string)                (* v[0] *)
| AAdd (a b : aexpr)
| ASub (a b : aexpr)
| AMul (a b : aexpr)
| ADiv (a b : aexpr)
| AApp (f : string) (a : aexpr)      (* self.<f>(a): another formula of this file, element-wise *)
| ADot (a b : string).               (* np.dot(a, b) : sum over the first index of a_i * b_ij *)

(* matrix expressions *)
Inductive mexpr :=
| MV (v : string)
| MTr (a : mexpr)                    (* a.T *)
| MDiag (a : mexpr)                  (* np.diag(a) *)
| MMat (a b : mexpr).                (* a @ b *)

Inductive cmpop := CLt | CLe | CGt | CGe.

(* target[lhs <op> rhs] = value, optionally under `if <guard> is not None` *)
Record masked_assign := mk_mask {
  ma_target : string;
  ma_lhs : aexpr;
  ma_op : cmpop;
  ma_rhs : aexpr;
  ma_value : aexpr;
  ma_guard : option string }.

(* name = self.<source>[:stop] along the given axis *)
Record slicing := mk_slice { sl_name : string; sl_source : string; sl_axis : nat; sl_stop : string }.

Record lstsq_code := mk_lstsq {
  lq_defaults : list (string * string);     (* parameter None -> self.<attribute> *)
  lq_slices : list slicing;
  lq_init : string * string;                (* s_inv = np.zeros_like(s) *)
  lq_masks : list masked_assign;
  lq_result : string;                       (* the returned variable *)
  lq_formula : mexpr }.

(* an in-place element-wise update  target[ii] <op>= operand  under `if vv.<field> is not None` *)
Record weight_code := mk_weight {
  wc_source : string;                       (* the array that is copied first *)
  wc_update : aexpr;                        (* new element in terms of the old one (AVar "elem") and the field *)
  wc_guard : string }.

Record fd_code := mk_fd {                   (* MeritFunctionForMatch.get_jacobian *)
  fd_steps : aexpr;                         (* steps = self._knobs_to_x(self.steps_for_jacobian) *)
  fd_perturb : aexpr;                       (* x[ii] after  x[ii] += steps[ii] *)
  fd_column : aexpr;                        (* jac[:, ii] *)
  fd_restore : aexpr;                       (* x[ii] after  x[ii] -= steps[ii] *)
  fd_skip_inactive : bool }.

Record view_jac_code := mk_vj {             (* MeritFuctionView.get_jacobian *)
  vj_prescale : string;                     (* under rescale_x: x = self.<this>(x) before the native Jacobian *)
  vj_native : string;                       (* jac_native = self.merit_function.<this>(x) *)
  vj_dxdx : aexpr;                          (* dx_native_dx_scaled *)
  vj_scaled_column : aexpr;                 (* jac[:, jj] after  jac[:, jj] *= dx_native_dx_scaled[jj] *)
  vj_scalar : aexpr;                        (* the value returned under return_scalar *)
  vj_scalar_f0_kwargs : list string }.      (* keyword arguments of the f0 evaluation *)

Record view_call_code := mk_vc {            (* MeritFuctionView.__call__ *)
  vc_prescale : string;
  vc_kwargs : list string }.

(* where a keyword argument of a call comes from *)
Inductive arg_src :=
| ArgParam (name : string)     (* a parameter of the enclosing method *)
| ArgLocal (name : string)     (* a local variable *)
| ArgSelf (attr : string)      (* self.<attr>: state of the object *)
| ArgOther (src : string).

Record step_code := mk_step {                       (* JacobianSolver.step, Optimize.step, Optimize.solve *)
  sc_lstsq_kwargs : list (string * arg_src);        (* jac_svd.lstsq(y[mask_output], <kw> = ...): the Newton step *)
  sc_params : list string;                          (* parameters of JacobianSolver.step *)
  sc_params_rebound : list string;                  (* parameters assigned to inside step *)
  sc_self_stores : list string;                     (* self.<name> assigned anywhere in JacobianSolver, name a step parameter / lstsq keyword *)
  sc_optimize_step_kwargs : list (string * arg_src);(* self.solver.step(<kw> = ...) in Optimize.step *)
  sc_solve_kwargs : list (string * arg_src);        (* self.step(..., <kw> = ...) in Optimize.solve *)
  sc_broyden_update : bool }.                       (* jac = last + outer(dy - last @ dx, dx) / (dx . dx), cache = (x, jac, y) of every step *)
