(* Executable model of the row-name cache and of single-row resolution of
   xdeps.table.Table  (_make_cache, _get_cache, _get_row_cache,
   _get_row_cache_raise, _get_row_index, the (col,row) branches of
   __getitem__/__setitem__, __delitem__, cols.get_index_unique).
   Definitions only; proofs are in proofs/TableCache.v. *)
From Coq Require Import List Bool Arith ZArith NArith Lia.
From XD Require Import lib.ListAux.
Import ListNotations.
Open Scope Z_scope.

Definition name := N.

Definition keyeqb (a b : N * Z) : bool := N.eqb (fst a) (fst b) && Z.eqb (snd a) (snd b).

(* the two dictionaries built by _make_cache and the unique labels *)
Record cache := mkCache {
  c_idx : list ((N * Z) * nat);      (* (name, occurrence) -> position *)
  c_cnt : list (N * Z);              (* name -> number of occurrences  *)
  c_lab : list (N * option Z)        (* get_index_unique: name or name::k *)
}.

Definition cnt_get (nn : N) (cnt : list (N * Z)) (d : Z) : Z :=
  match aget N.eqb nn cnt with Some x => x | None => d end.

(* loop body of _make_cache:  cc = count.get(nn,-1)+1; dct[(nn,cc)] = ii; count[nn] = cc;
   newnames[ii] = f"{nn}::{cc}" *)
Definition cache_step (st : cache * nat) (nn : N) : cache * nat :=
  let '(c, ii) := st in
  let cc := cnt_get nn (c_cnt c) (-1) + 1 in
  (mkCache (aset keyeqb (nn, cc) ii (c_idx c)) (aset N.eqb nn cc (c_cnt c)) (c_lab c ++ [(nn, Some cc)]), S ii).

Definition cache_loop (col : list N) : cache :=
  fst (fold_left cache_step col (mkCache [] [] [], 0%nat)).

(* second loop:  count[nn] = cc + 1;  if cc == 0: newnames[dct[(nn,0)]] = nn *)
Definition make_cache (col : list N) : cache :=
  let c := cache_loop col in
  mkCache (c_idx c)
          (map (fun p => (fst p, snd p + 1)) (c_cnt c))
          (map (fun l => if cnt_get (fst l) (c_cnt c) (-1) =? 0 then (fst l, None) else l) (c_lab c)).

(* _get_row_cache(row, count, offset) *)
Definition get_row_cache (c : cache) (row : N) (count : option Z) (offset : Z) : option Z :=
  let count := match count with None => 0 | Some x => x end in
  let count := if count <? 0 then count + cnt_get row (c_cnt c) 0 else count in
  match aget keyeqb (row, count) (c_idx c) with
  | Some i => Some (Z.of_nat i + offset)
  | None => None
  end.

(* ---- rows, selectors, operations ------------------------------------- *)

(* A row selector as the API receives it.  For strings the harness supplies
   the token [raw] standing for the whole text and its split
   (name, count, offset) as _split_name_count_offset computes it. *)
Inductive rowsel :=
| RInt (i : Z)
| RStr (raw nm : N) (cnt : option Z) (off : Z)
| RTup2 (nm : N) (cnt : Z)
| RTup3 (nm : N) (cnt : Z) (off : Z).

Inductive err := KeyError | IndexError | ValueError.

Inductive result :=
| RPos (i : Z) | RValZ (v : Z) | RValN (v : N) | RUnit | RErr (e : err)
| RLabels (l : list (N * option Z)).

Record table := mkTable {
  t_idx : list N;                    (* the index column *)
  t_cols : list (N * list Z);        (* the other columns, in _col_names order *)
  t_cache : option cache             (* _index_cache/_count_cache, None = not built *)
}.

Definition get_cache (t : table) : cache * table :=
  match t_cache t with
  | Some c => (c, t)
  | None => let c := make_cache (t_idx t) in (c, mkTable (t_idx t) (t_cols t) (Some c))
  end.

Definition or_key (o : option Z) : result := match o with Some i => RPos i | None => RErr KeyError end.

(* _get_row_index: int / str / tuple *)
Definition row_index (t : table) (r : rowsel) : result * table :=
  match r with
  | RInt i => (RPos i, t)
  | RStr _ nm cnt off => let '(c, t') := get_cache t in (or_key (get_row_cache c nm cnt off), t')
  | RTup2 nm cnt => let '(c, t') := get_cache t in (or_key (get_row_cache c nm (Some cnt) 0), t')
  | RTup3 nm cnt off => let '(c, t') := get_cache t in (or_key (get_row_cache c nm (Some cnt) off), t')
  end.

(* the row dispatch shared by __getitem__ and __setitem__ for (col, row) *)
Definition item_index (t : table) (r : rowsel) : result * table :=
  match r with
  | RInt i => (RPos i, t)
  | RStr raw nm cnt off =>
      let '(c, t') := get_cache t in
      match aget keyeqb (raw, 0) (c_idx c) with
      | Some i => (RPos (Z.of_nat i), t')
      | None => (or_key (get_row_cache c nm cnt off), t')
      end
  | RTup2 nm cnt =>
      let '(c, t') := get_cache t in
      match aget keyeqb (nm, cnt) (c_idx c) with
      | Some i => (RPos (Z.of_nat i), t')
      | None => (or_key (get_row_cache c nm (Some cnt) 0), t')
      end
  | RTup3 nm cnt off =>
      let '(c, t') := get_cache t in (or_key (get_row_cache c nm (Some cnt) off), t')
  end.

(* numpy scalar indexing of a 1-d array: negative positions wrap once *)
Definition np_pos {A} (l : list A) (i : Z) : option nat :=
  let n := Z.of_nat (length l) in
  if (0 <=? i) && (i <? n) then Some (Z.to_nat i)
  else if (- n <=? i) && (i <? 0) then Some (Z.to_nat (i + n))
  else None.

Fixpoint list_set {A} (l : list A) (i : nat) (v : A) : list A :=
  match l, i with
  | [], _ => []
  | _ :: t, O => v :: t
  | x :: t, S j => x :: list_set t j v
  end.

Inductive colref := CIdx | CCol (c : N).

Inductive op :=
| OGetIndex (r : rowsel)                       (* rows.get_index(r), table // r *)
| OGetCell (c : colref) (r : rowsel)           (* table[c, r] *)
| OSetCellN (r : rowsel) (v : N)               (* table[index, r] = v *)
| OSetCellZ (c : N) (r : rowsel) (v : Z)       (* table[c, r] = v *)
| OSetIdxCol (vals : list N)                   (* table[index] = array / table.index = array *)
| OSetIdxScalar (v : N)                        (* table[index] = scalar (broadcast) *)
| OSetCol (c : N) (vals : list Z)              (* existing column: elementwise; new name: new column *)
| ODelCol (c : N)
| OUnique.                                     (* cols.get_index_unique() *)

Definition invalidate (t : table) : table := mkTable (t_idx t) (t_cols t) None.

Definition step (t : table) (o : op) : table * result :=
  match o with
  | OGetIndex r => let '(res, t') := row_index t r in (t', res)
  | OGetCell cr r =>
      let '(res, t') := item_index t r in
      match res with
      | RPos i =>
          match cr with
          | CIdx => match np_pos (t_idx t') i with
                    | Some k => (t', match nth_error (t_idx t') k with Some v => RValN v | None => RErr IndexError end)
                    | None => (t', RErr IndexError) end
          | CCol cn =>
              match aget N.eqb cn (t_cols t') with
              | Some col => match np_pos col i with
                            | Some k => (t', match nth_error col k with Some v => RValZ v | None => RErr IndexError end)
                            | None => (t', RErr IndexError) end
              | None => (t', RErr KeyError)
              end
          end
      | other => (t', other)
      end
  | OSetCellN r v =>
      let '(res, t') := item_index t r in
      match res with
      | RPos i => match np_pos (t_idx t') i with
                  | Some k => (mkTable (list_set (t_idx t') k v) (t_cols t') None, RUnit)
                  | None => (t', RErr IndexError) end
      | other => (t', other)
      end
  | OSetCellZ cn r v =>
      match aget N.eqb cn (t_cols t) with
      | None => (t, RErr KeyError)
      | Some col =>
        let '(res, t') := item_index t r in
        match res with
        | RPos i => match np_pos col i with
                    | Some k => (mkTable (t_idx t') (aset N.eqb cn (list_set col k v) (t_cols t')) (t_cache t'), RUnit)
                    | None => (t', RErr IndexError) end
        | other => (t', other)
        end
      end
  | OSetIdxCol vals =>
      (* self._data[key][:] = val : numpy broadcasts a length-1 array *)
      if Nat.eqb (length vals) (length (t_idx t)) then (mkTable vals (t_cols t) None, RUnit)
      else match vals with
           | [v] => (mkTable (map (fun _ => v) (t_idx t)) (t_cols t) None, RUnit)
           | _ => (invalidate t, RErr ValueError)
           end
  | OSetIdxScalar v => (mkTable (map (fun _ => v) (t_idx t)) (t_cols t) None, RUnit)
  | OSetCol cn vals =>
      match aget N.eqb cn (t_cols t) with
      | Some old => if Nat.eqb (length vals) (length old)
                  then (mkTable (t_idx t) (aset N.eqb cn vals (t_cols t)) (t_cache t), RUnit)
                  else match vals with
                       | [v] => (mkTable (t_idx t) (aset N.eqb cn (map (fun _ => v) old) (t_cols t)) (t_cache t), RUnit)
                       | _ => (t, RErr ValueError)
                       end
      | None => if Nat.eqb (length vals) (length (t_idx t))
                then (mkTable (t_idx t) (aset N.eqb cn vals (t_cols t)) (t_cache t), RUnit)
                else (t, RUnit)   (* stored as a non-column entry: invisible to this model *)
      end
  | ODelCol cn =>
      match aget N.eqb cn (t_cols t) with
      | Some _ => (mkTable (t_idx t) (adel N.eqb cn (t_cols t)) (t_cache t), RUnit)
      | None => (t, RErr KeyError)
      end
  | OUnique => (t, RLabels (c_lab (make_cache (t_idx t))))
  end.

Fixpoint run (t : table) (ops : list op) : list result :=
  match ops with
  | [] => []
  | o :: rest => let '(t', r) := step t o in r :: run t' rest
  end.

Definition final (t : table) (ops : list op) : table := fold_left (fun s o => fst (step s o)) ops t.

(* ---- the specification: a scan of the current index column ------------- *)

Fixpoint positions (col : list N) (n : N) (i : nat) : list nat :=
  match col with
  | [] => []
  | x :: t => if N.eqb x n then i :: positions t n (S i) else positions t n (S i)
  end.

(* the c-th occurrence of n (negative c counts from the last one) *)
Definition nth_occurrence (col : list N) (n : N) (c : Z) : option nat :=
  let ps := positions col n 0 in
  let c' := if c <? 0 then c + Z.of_nat (length ps) else c in
  if c' <? 0 then None else nth_error ps (Z.to_nat c').

Definition resolve_spec (col : list N) (r : rowsel) : option Z :=
  match r with
  | RInt i => Some i
  | RStr _ nm cnt off =>
      option_map (fun i => Z.of_nat i + off) (nth_occurrence col nm (match cnt with None => 0 | Some c => c end))
  | RTup2 nm cnt => option_map (fun i => Z.of_nat i) (nth_occurrence col nm cnt)
  | RTup3 nm cnt off => option_map (fun i => Z.of_nat i + off) (nth_occurrence col nm cnt)
  end.

(* names are free of the separators:  the whole text of a selector is a row
   name only when it carries neither count nor offset *)
Definition raw_ok (col : list N) (r : rowsel) : Prop :=
  match r with
  | RStr raw nm cnt off => (cnt = None /\ off = 0 /\ raw = nm) \/ ~ In raw col
  | _ => True
  end.

Definition raw_okb (col : list N) (r : rowsel) : bool :=
  match r with
  | RStr raw nm cnt off =>
      (match cnt with None => true | _ => false end && (off =? 0) && N.eqb raw nm)
      || negb (existsb (N.eqb raw) col)
  | _ => true
  end.
