(* Executable model of the matching optimizer of xdeps
   (xdeps/optimize/optimize.py: MeritFunctionForMatch, Optimize;
    xdeps/optimize/jacobian.py: JacobianSolver), written statement by
   statement after the Python code, as a state machine driven by oracles.

   Carrier [F] with its element-wise operations is a section variable (the run
   instance is PrimFloat = IEEE binary64).  Oracles, also section variables:
     f           the user's function: container knob values -> target values
                 (None = the user's action raised)
     pen         sqrt(dot(y, y))                       (BLAS: taken from the trace)
     newton      SVD(jac[mask_output][:, mask_input]).lstsq(y[mask_output])
                 (None = numpy.linalg.LinAlgError)
     broyden_upd the Broyden update  last_jac + outer(dy - last_jac.dx, dx)/dx.dx
   Definitions only; proofs are in proofs/Opt*.v. *)
From Coq Require Import List Bool Arith NArith ZArith.
Import ListNotations.

Inductive err := EValue | ERuntime | EAssert | EUser | ELinAlg.

Inductive entry := EIdx (i : nat) | EName (t : N).
Inductive sel := SAll | SNot | SList (l : list entry).
Inductive bro_mode := BroOff | BroOn | BroEvery (k : nat).

Section MapAux.
  Context {A B C : Type}.
  Fixpoint map2 (g : A -> B -> C) (a : list A) (b : list B) : list C :=
    match a, b with
    | x :: a', y :: b' => g x y :: map2 g a' b'
    | _, _ => []
    end.
End MapAux.

Fixpoint set_nth {A} (i : nat) (v : A) (l : list A) : list A :=
  match l, i with
  | [], _ => []
  | _ :: t, O => v :: t
  | h :: t, S j => h :: set_nth j v t
  end.

Fixpoint fmask {A} (m : list bool) (l : list A) : list A :=
  match m, l with
  | true :: m', x :: l' => x :: fmask m' l'
  | false :: m', _ :: l' => fmask m' l'
  | _, _ => []
  end.

(* apply g along two lists, keeping the tail of the second when the first runs out *)
Fixpoint map2_keep {A B} (g : A -> B -> B) (a : list A) (b : list B) : list B :=
  match b with
  | [] => []
  | y :: b' => match a with x :: a' => g x y :: map2_keep g a' b' | [] => b end
  end.

Fixpoint set_last {A} (g : A -> A) (l : list A) : list A :=
  match l with
  | [] => []
  | [x] => [g x]
  | x :: t => x :: set_last g t
  end.

Section Types.
  Variable F : Type.

  (* the duck-typed `transform` hook of a target object (hasattr(tt, "transform")): applied to the
     value the action produced before the target value is subtracted; the raw value is what is logged *)
  Inductive ttrans :=
  | TId                      (* no hook *)
  | TAbs                     (* abs(v) *)
  | TSquare                  (* v * v *)
  | TScale (c : F)           (* v * c *)
  | TFloor (a : F)           (* v if v > a else a *)
  | TCeil (b : F).           (* v if v < b else b *)

  Record cfg := mkCfg {
    c_w : list F;                       (* Vary.weight *)
    c_lim : list (option (option F * option F));  (* Vary.limits (knob units): None, or a pair whose
                                           sides may be None (one-sided limits) *)
    c_step : list F;                    (* steps_for_jacobian (knob units) *)
    c_maxstep : list (option F);        (* Vary.max_step (knob units) *)
    c_vtag : list N; c_vname : list N;
    c_tval : list F; c_tol : list F; c_tw : list F; c_ttag : list N;
    c_nmax : nat; c_assert : bool; c_restore : bool;
    c_check : bool;                     (* Optimize(check_limits=...) *)
    c_tlog : list bool;                 (* Target(optimize_log=...); missing entries = False *)
    c_ttrans : list ttrans }.           (* transform hooks; missing entries = TId *)

  Record row := mkRow {
    r_knobs : list F; r_va : list bool; r_ta : list bool; r_pen : F;
    r_targets : list F; r_tolmet : list bool; r_hit : list bool;
    r_alpha : Z; r_tag : N }.

  Definition jacm := list (list F).      (* list of columns *)

  Record state := mkState {
    knobs : list F;                      (* the containers *)
    va : list bool;                      (* Vary.active *)
    ta : list bool;                      (* Target.active *)
    sx : option (list F);                (* solver.x *)
    mfl : list bool;                     (* solver.mask_from_limits *)
    lpwt : bool;                         (* last_point_within_tol *)
    lres : list F;                       (* last_res_values *)
    ltw : list bool;                     (* last_targets_within_tol *)
    pen_after : F;                       (* solver.penalty_after_last_step *)
    alpha_last : Z;                      (* solver.alpha_last_step (-2 = None) *)
    bro : option (jacm * list F * list F);  (* _last_jac, _last_jac_x, _last_y *)
    log : list row;
    ncall : nat }.                       (* MeritFunctionForMatch.call_counter *)

  Inductive res (A : Type) := Ok (a : A) | Err (e : err) (s : state) | Div.
  Arguments Ok {A}. Arguments Err {A}. Arguments Div {A}.

  Definition bind {A B} (r : res A) (k : A -> res B) : res B :=
    match r with Ok a => k a | Err e s => Err e s | Div => Div end.

  Definition set_knobs s v := mkState v (va s) (ta s) (sx s) (mfl s) (lpwt s) (lres s) (ltw s) (pen_after s) (alpha_last s) (bro s) (log s) (ncall s).
  Definition set_va s v := mkState (knobs s) v (ta s) (sx s) (mfl s) (lpwt s) (lres s) (ltw s) (pen_after s) (alpha_last s) (bro s) (log s) (ncall s).
  Definition set_ta s v := mkState (knobs s) (va s) v (sx s) (mfl s) (lpwt s) (lres s) (ltw s) (pen_after s) (alpha_last s) (bro s) (log s) (ncall s).
  Definition set_sx s v m := mkState (knobs s) (va s) (ta s) v m (lpwt s) (lres s) (ltw s) (pen_after s) (alpha_last s) (bro s) (log s) (ncall s).
  Definition set_mfl s m := mkState (knobs s) (va s) (ta s) (sx s) m (lpwt s) (lres s) (ltw s) (pen_after s) (alpha_last s) (bro s) (log s) (ncall s).
  Definition set_eval s ok r w := mkState (knobs s) (va s) (ta s) (sx s) (mfl s) ok r w (pen_after s) (alpha_last s) (bro s) (log s) (S (ncall s)).
  (* the call raised after the flags were stored: call_counter is not incremented *)
  Definition set_eval0 s ok r w := mkState (knobs s) (va s) (ta s) (sx s) (mfl s) ok r w (pen_after s) (alpha_last s) (bro s) (log s) (ncall s).
  Definition set_pen s p := mkState (knobs s) (va s) (ta s) (sx s) (mfl s) (lpwt s) (lres s) (ltw s) p (alpha_last s) (bro s) (log s) (ncall s).
  Definition set_alpha s a := mkState (knobs s) (va s) (ta s) (sx s) (mfl s) (lpwt s) (lres s) (ltw s) (pen_after s) a (bro s) (log s) (ncall s).
  Definition set_bro s b := mkState (knobs s) (va s) (ta s) (sx s) (mfl s) (lpwt s) (lres s) (ltw s) (pen_after s) (alpha_last s) b (log s) (ncall s).
  Definition set_log s l := mkState (knobs s) (va s) (ta s) (sx s) (mfl s) (lpwt s) (lres s) (ltw s) (pen_after s) (alpha_last s) (bro s) l (ncall s).

End Types.

Arguments Ok {F A}. Arguments Err {F A}. Arguments Div {F A}.
Arguments bind {F A B}.
Arguments mkRow {F}. Arguments mkCfg {F}. Arguments mkState {F}.
Arguments c_w {F}. Arguments c_lim {F}. Arguments c_step {F}. Arguments c_maxstep {F}. Arguments c_vtag {F}.
Arguments c_vname {F}. Arguments c_tval {F}. Arguments c_tol {F}. Arguments c_tw {F}. Arguments c_ttag {F}.
Arguments c_nmax {F}. Arguments c_assert {F}. Arguments c_restore {F}. Arguments c_check {F}. Arguments c_tlog {F}. Arguments c_ttrans {F}.
Arguments TId {F}. Arguments TAbs {F}. Arguments TSquare {F}. Arguments TScale {F}. Arguments TFloor {F}. Arguments TCeil {F}.
Arguments r_knobs {F}. Arguments r_va {F}. Arguments r_ta {F}. Arguments r_pen {F}. Arguments r_targets {F}.
Arguments r_tolmet {F}. Arguments r_hit {F}. Arguments r_alpha {F}. Arguments r_tag {F}.
Arguments knobs {F}. Arguments va {F}. Arguments ta {F}. Arguments sx {F}. Arguments mfl {F}. Arguments lpwt {F}.
Arguments lres {F}. Arguments ltw {F}. Arguments pen_after {F}. Arguments alpha_last {F}. Arguments bro {F}.
Arguments log {F}. Arguments ncall {F}.
Arguments set_knobs {F}. Arguments set_va {F}. Arguments set_ta {F}. Arguments set_sx {F}. Arguments set_mfl {F}.
Arguments set_eval {F}. Arguments set_eval0 {F}. Arguments set_pen {F}. Arguments set_alpha {F}. Arguments set_bro {F}. Arguments set_log {F}.

(* carrier, element-wise operations, constants and oracles *)
Record env := mkEnv {
  eF : Type;
  e_zero : eF; e_one : eF; e_half : eF;
  e_add : eF -> eF -> eF; e_sub : eF -> eF -> eF; e_mul : eF -> eF -> eF; e_div : eF -> eF -> eF;
  e_abs : eF -> eF;
  e_ltb : eF -> eF -> bool; e_leb : eF -> eF -> bool;
  (* JacobianSolver.tol, max_rel_penalty_increase, error_on_penalty_increase,
     atol of the allclose test in Optimize.step, LIMITS_DEFAULT *)
  e_tolj : eF; e_ten : eF; e_hundred : eF; e_atol : eF; e_lo : eF; e_hi : eF;
  e_f : list eF -> option (list eF);
  e_pen : list eF -> eF;
  e_newton : list (list eF) -> list eF -> option (list eF);
  e_broyden : list (list eF) -> list eF -> list eF -> list eF -> list eF -> list (list eF);
  e_log10 : eF -> eF;
  (* re.fullmatch(pattern, string) for the interned selector strings / tags / names *)
  e_match : N -> N -> bool }.                  (* numpy.log10 (libm, not an IEEE basic operation: taken from the trace) *)

Section Opt.
  Variable E : env.
  Notation F := (eF E).
  Notation zero := (e_zero E). Notation one := (e_one E). Notation half := (e_half E).
  Notation add := (e_add E). Notation sub := (e_sub E). Notation mul := (e_mul E). Notation div := (e_div E).
  Notation fabs := (e_abs E). Notation ltb := (e_ltb E). Notation leb := (e_leb E).
  Notation c_tolj := (e_tolj E). Notation c_ten := (e_ten E). Notation c_hundred := (e_hundred E).
  Notation c_atol := (e_atol E). Notation c_lo := (e_lo E). Notation c_hi := (e_hi E).
  Notation f := (e_f E). Notation pen := (e_pen E). Notation newton := (e_newton E).
  Notation broyden_upd := (e_broyden E). Notation log10 := (e_log10 E).
  Notation state := (state F). Notation row := (row F). Notation cfg := (cfg F). Notation jacm := (jacm F).
  Notation res := (res F).
  Variable cf : cfg.


  (* _x_to_knobs / _knobs_to_x *)
  Definition x_to_knobs (x : list F) : list F := map2 mul x (c_w cf).
  Definition knobs_to_x (k : list F) : list F := map2 div k (c_w cf).

  (* "limits[0] is not None and val < limits[0]" / "limits[1] is not None and val > limits[1]" *)
  Definition below (lo : option F) (v : F) : bool := match lo with Some a => ltb v a | None => false end.
  Definition above (hi : option F) (v : F) : bool := match hi with Some b => ltb b v | None => false end.
  Definition out_of_limits (l : option (option F * option F)) (v : F) : bool :=
    match l with Some (lo, hi) => below lo v || above hi v | None => false end.

  (* the "Set knobs" loop of __call__: only active knobs are written, the limit
     test (check_limits) raises in the middle of the loop *)
  Fixpoint write_knobs (chk : bool) (act : list bool) (lims : list (option (option F * option F)))
           (kv old : list F) : list F * bool :=
    match act, lims, kv, old with
    | a :: act', l :: lims', v :: kv', o :: old' =>
        if a then
          if chk && out_of_limits l v then (o :: old', true)
          else let '(t, e) := write_knobs chk act' lims' kv' old' in (v :: t, e)
        else let '(t, e) := write_knobs chk act' lims' kv' old' in (o :: t, e)
    | _, _, _, _ => (old, false)
    end.

  Definition apply_tr (t : ttrans F) (v : F) : F :=
    match t with
    | TId => v
    | TAbs => fabs v
    | TSquare => mul v v
    | TScale c => mul v c
    | TFloor a => if ltb a v then v else a
    | TCeil b => if ltb v b then v else b
    end.
  (* transformed_res_values: the hook applied where there is one *)
  Fixpoint transformed (ts : list (ttrans F)) (r : list F) : list F :=
    match r with
    | [] => []
    | v :: r' => apply_tr (hd TId ts) v :: transformed (tl ts) r'
    end.
  (* err_values = transformed_res_values - target_values *)
  Definition residual (r : list F) : list F := map2 sub (transformed (c_ttrans cf) r) (c_tval cf).
  Definition within (r : list F) : list bool :=
    map2 (fun e t => ltb (fabs e) t) (residual r) (c_tol cf).
  Definition all_ok (w act : list bool) : bool :=
    forallb (fun b : bool => b) (map2 (fun wi a => wi || negb a) w act).
  (* err_values[~mask_output] = 0 ; err_values[ii] *= weight *)
  (* the residual that enters the penalty: err_values[~mask_output] = 0, then for an
     active optimize_log target log10(res) - log10(value) replaces the linear
     residual, then every entry is multiplied by the target's weight *)
  Fixpoint res_pen (ev : list F) (act lg : list bool) (r tv : list F) : list F :=
    match ev, act with
    | e :: ev', a :: act' =>
        (if a then (if hd false lg then sub (log10 (hd zero r)) (log10 (hd zero tv)) else e) else zero)
        :: res_pen ev' act' (tl lg) (tl r) (tl tv)
    | _, _ => []
    end.
  Definition merit_out (act : list bool) (r : list F) : list F :=
    map2 mul (res_pen (residual r) act (c_tlog cf) r (c_tval cf)) (c_tw cf).
  (* "assert res_values[ii] > 0" / "assert tt.value > 0" for an active optimize_log target *)
  Fixpoint log_bad (act lg : list bool) (r tv : list F) : bool :=
    match act, r, tv with
    | a :: act', ri :: r', vi :: tv' =>
        (a && hd false lg && negb (ltb zero ri && ltb zero vi)) || log_bad act' (tl lg) r' tv'
    | _, _, _ => false
    end.

  (* MeritFunctionForMatch.__call__(x, check_limits=chk) *)
  Definition merit_call (x : list F) (chk : bool) (s : state) : res (list F * state) :=
    let '(k', e) := write_knobs chk (va s) (c_lim cf) (x_to_knobs x) (knobs s) in
    let s1 := set_knobs s k' in
    if e then Err EValue s1 else
    match f k' with
    | None => Err EUser s1
    | Some r =>
        if log_bad (ta s) (c_tlog cf) r (c_tval cf)
        then Err EAssert (set_eval0 s1 (all_ok (within r) (ta s)) r (within r))
        else Ok (merit_out (ta s) r, set_eval s1 (all_ok (within r) (ta s)) r (within r))
    end.

  (* JacobianSolver.eval: func(x) with check_limits=None, i.e. Optimize's check_limits *)
  Definition solver_eval (x : list F) (s : state) : res (list F * F * state) :=
    bind (merit_call x (c_check cf) s) (fun '(y, s') => Ok (y, pen y, s')).

  (* get_jacobian(x, f0): forward differences, the local copy of x accumulates
     (x+h)-h; perturbed evaluations use check_limits=False *)
  Fixpoint jac_cols (pre : list F) (act : list bool) (steps suf : list F)
           (f0 : list F) (s : state) : res (jacm * state) :=
    match act, steps, suf with
    | a :: act', h :: steps', xi :: suf' =>
        if a then
          bind (merit_call (pre ++ add xi h :: suf') false s) (fun '(y, s1) =>
          let col := map (fun d => div d h) (map2 sub y f0) in
          bind (jac_cols (pre ++ [sub (add xi h) h]) act' steps' suf' f0 s1) (fun '(cols, s2) =>
          Ok (col :: cols, s2)))
        else
          bind (jac_cols (pre ++ [xi]) act' steps' suf' f0 s) (fun '(cols, s2) =>
          Ok (map (fun _ => zero) f0 :: cols, s2))
    | _, _, _ => Ok ([], s)
    end.

  Definition get_jacobian (x f0 : list F) (s : state) : res (jacm * state) :=
    jac_cols [] (va s) (knobs_to_x (c_step cf)) x f0 s.

  (* _clip_to_max_steps (after the fix): the whole vector is rescaled each time
     the current entry exceeds max_step/weight *)
  Fixpoint clip_loop (i : nat) (ms : list (option F)) (ws : list F) (out : list F) : list F :=
    match ms, ws with
    | m :: ms', w :: ws' =>
        let out' :=
          match m with
          | None => out
          | Some mx =>
              let lim := div mx w in
              let oi := fabs (nth i out zero) in
              if ltb lim oi then map (fun o => mul o (div lim oi)) out else out
          end in
        clip_loop (S i) ms' ws' out'
    | _, _ => out
    end.
  Definition clip_to_max_steps (xstep : list F) : list F :=
    clip_loop 0 (c_maxstep cf) (c_w cf) xstep.

  (* _get_x_limits: a side given as None becomes NaN in the numpy array, every
     comparison with it is false: no bound on that side *)
  Definition x_limits : list (option F * option F) :=
    map2 (fun l w => match l with
                     | Some (lo, hi) => (option_map (fun a => div a w) lo, option_map (fun b => div b w) hi)
                     | None => (Some (div c_lo w), Some (div c_hi w))
                     end)
         (c_lim cf) (c_w cf).

  (* the "Check limits" loop of JacobianSolver.step *)
  Fixpoint lim_loop (x this : list F) (xl : list (option F * option F)) : list F * list bool :=
    match x, this, xl with
    | xi :: x', ti :: t', (lo, hi) :: xl' =>
        let d := sub xi ti in
        let '(tl, hh) := lim_loop x' t' xl' in
        if below lo d then (zero :: tl, true :: hh)
        else if above hi d then (zero :: tl, true :: hh)
        else (ti :: tl, false :: hh)
    | _, _, _ => ([], [])
    end.

  Fixpoint scatter (m : list bool) (v : list F) : list F :=
    match m with
    | [] => []
    | true :: m' => match v with a :: v' => a :: scatter m' v' | [] => zero :: scatter m' [] end
    | false :: m' => zero :: scatter m' v
    end.

  Definition pow2neg (alpha : nat) : F := Nat.iter alpha (mul half) one.   (* 2.0 ** -alpha *)

  (* bisection loop.  [anext] = value alpha takes when incremented;
     [prev] = (newpen, this_xstep, mask_hit_limit) of the previous pass *)
  Fixpoint bisect (fuel : nat) (anext : nat) (prev : option (F * list F * list bool))
           (x xstep : list F) (penalty : F) (s : state)
    : res (nat * F * list F * list bool * state) :=
    match fuel with
    | O => Div
    | S fuel' =>
        match (if 5 <=? anext then
                 match prev with
                 | Some (np, t, h) => if ltb np (mul c_ten penalty) then Some (np, t, h) else None
                 | None => None
                 end
               else None) with
        | Some (np, t, h) => Ok (pred anext, np, t, h, s)
        | None =>
            let this := map (fun v => mul (pow2neg anext) v) xstep in
            let '(this', hit) := lim_loop x this x_limits in
            bind (solver_eval (map2 sub x this') s) (fun '(_, newpen, s') =>
            if ltb newpen penalty then Ok (anext, newpen, this', hit, s')
            else bisect fuel' (S anext) (Some (newpen, this', hit)) x xstep penalty s')
        end
    end.

  (* JacobianSolver.step(n_steps=1, broyden=bro_on) *)
  Definition jac_step (fuel : nat) (bro_on : bool) (s : state) : res state :=
    match sx s with
    | None => Err EAssert s
    | Some x =>
      bind (solver_eval x s) (fun '(y, penalty, s1) =>
      let s1 := set_pen s1 penalty in
      if ltb penalty c_tolj then Ok s1
      else if lpwt s1 then Ok s1
      else
        bind (match (if bro_on then bro s1 else None) with
              | Some (lj, lx, ly) => Ok (broyden_upd lj lx ly x y, s1)
              | None => get_jacobian x y s1
              end) (fun '(jac, s2) =>
        let s2 := set_bro s2 (Some (jac, x, y)) in
        if negb (existsb (fun b : bool => b) (va s2)) then Err EAssert s2 else
        let mi := map2 andb (va s2) (mfl s2) in
        let mo := ta s2 in
        let sub_m := map (fmask mo) (fmask mi jac) in
        match (match sub_m, fmask mo y with
               | [], _ => Some []
               | _, [] => Some []
               | m, yy => newton m yy
               end) with
        | None => Err ELinAlg s2
        | Some nstep =>
          let xstep := clip_to_max_steps (scatter mi nstep) in
          let s3 := set_mfl s2 (map (fun _ => true) (mfl s2)) in
          bind (bisect fuel 0 None x xstep penalty s3) (fun '(alpha, newpen, this', hit, s4) =>
          if ltb (mul penalty c_hundred) newpen then
            bind (solver_eval x s4) (fun '(_, _, s5) => Err EValue s5)
          else
            Ok (set_alpha (set_pen (set_sx s4 (Some (map2 sub x this')) (map negb hit)) newpen) (Z.of_nat alpha)))
        end))
    end.

  (* _set_state(lst, state, entries, attr): entries None = nothing, True = all, False = all
     with the opposite state; otherwise a list (a single int or str counts as a one-element
     list) processed in order: an int sets lst[int]; a str is a REGULAR EXPRESSION and sets
     every element whose attribute FULLY matches it (re.fullmatch(entry, getattr(vv, attr))),
     where attr is the TAG for `target` and `vary` selectors and the NAME for `vary_name`
     selectors.  Strings are interned; the verdict of re.fullmatch is the oracle e_match. *)
  Definition set_entry (attr : list N) (st : bool) (e : entry) (flags : list bool) : list bool :=
    match e with
    | EIdx i => set_nth i st flags
    | EName t => map2_keep (fun a (b : bool) => if e_match E t a then st else b) attr flags
    end.
  Definition set_flags (attr : list N) (st : bool) (e : option sel) (flags : list bool) : list bool :=
    match e with
    | None => flags
    | Some SAll => map (fun _ => st) flags
    | Some SNot => map (fun _ => negb st) flags
    | Some (SList l) => fold_left (fun fl en => set_entry attr st en fl) l flags
    end.
  (* Optimize.enable / disable *)
  Definition able (st : bool) (t v vn : option sel) (s : state) : state :=
    let s1 := set_ta s (set_flags (c_ttag cf) st t (ta s)) in
    let s2 := set_va s1 (set_flags (c_vtag cf) st v (va s1)) in
    set_va s2 (set_flags (c_vname cf) st vn (va s2)).

  (* add_point_to_log(tag): the knob values are read first, the point is evaluated,
     and only then every column (knobs included) gets its entry: an exception of
     the evaluation leaves the log untouched *)
  Definition add_point (tg : N) (s : state) : res state :=
    let k := knobs s in
    match solver_eval (knobs_to_x k) s with
    | Ok (_, penalty, s1) =>
        Ok (set_log s1 (log s1 ++ [mkRow k (va s1) (ta s1) penalty (lres s1) (ltw s1)
                                        (map (fun _ => false) k) (-1)%Z tg]))
    | Err e s1 => Err e s1
    | Div => Div
    end.

  (* reload(iteration=i) *)
  Definition reload (i : nat) (s : state) : res state :=
    match nth_error (log s) i with
    | None => Err EAssert s
    | Some r => add_point 0%N (set_ta (set_va (set_knobs s (r_knobs r)) (r_va r)) (r_ta r))
    end.

  Fixpoint last_with_tag (t : N) (i : nat) (l : list row) (acc : option nat) : option nat :=
    match l with
    | [] => acc
    | r :: l' => last_with_tag t (S i) l' (if N.eqb (r_tag r) t then Some i else acc)
    end.
  Definition reload_tag (t : N) (s : state) : res state :=
    match last_with_tag t 0 (log s) None with
    | None => Err EValue s
    | Some i => reload i s
    end.

  Definition clear_log (s : state) : res state := add_point 0%N (set_log s []).

  (* np.allclose(x[msk], solver.x[msk], rtol=0, atol=1e-12) on finite values *)
  Definition allclose_masked (m : list bool) (a b : list F) : bool :=
    forallb (fun b : bool => b) (map2 (fun p q => leb (fabs (sub p q)) c_atol) (fmask m a) (fmask m b)).

  Definition this_broyden (b : bro_mode) (i_step : nat) : bool :=
    match b with
    | BroOff => false
    | BroOn => true
    | BroEvery k => negb (Nat.eqb (Nat.modulo i_step k) 0)
    end.

  (* np.argmin: the first NaN if there is one, else the first index of a minimal element *)
  Definition isnan (x : F) : bool := negb (leb x x).
  Fixpoint first_nan (i : nat) (l : list F) : option nat :=
    match l with
    | [] => None
    | p :: l' => if isnan p then Some i else first_nan (S i) l'
    end.
  Fixpoint argmin_from (best : nat) (bp : F) (i : nat) (l : list F) : nat :=
    match l with
    | [] => best
    | p :: l' => if ltb p bp then argmin_from i p (S i) l' else argmin_from best bp (S i) l'
    end.
  Definition argmin (l : list F) : nat :=
    match first_nan 0 l with
    | Some i => i
    | None => match l with [] => 0 | p :: l' => argmin_from 0 p 1 l' end
    end.

  Definition set_knobs_from_x (x : list F) (s : state) : state :=
    set_knobs s (fst (write_knobs false (va s) (c_lim cf) (x_to_knobs x) (knobs s))).

  (* self.set_knobs_from_x(self.solver.x) *)
  Definition restore_x (s1 : state) : state :=
    match sx s1 with Some xs => set_knobs_from_x xs s1 | None => s1 end.

  (* Optimize.step after solver.step(): set_knobs_from_x(solver.x), then the log row *)
  Definition log_step (s1 : state) : state :=
    let s2 := restore_x s1 in
    set_log s2 (log s2 ++ [mkRow (knobs s2) (va s2) (ta s2) (pen_after s2) (lres s2) (ltw s2)
                                 (map negb (mfl s2)) (alpha_last s2) 0%N]).

  (* the loop over i_step of Optimize.step *)
  Fixpoint step_loop (fuel : nat) (n : nat) (i_step : nat) (b : bro_mode) (s : state) : res state :=
    match n with
    | O => Ok s
    | S n' =>
        let x := knobs_to_x (knobs s) in
        let s0 := match sx s with
                  | None => set_sx s (Some x) (map (fun _ => true) x)
                  | Some x' => if allclose_masked (va s) x x' then s
                               else set_sx s (Some x) (map (fun _ => true) x)
                  end in
        (* "try: self.solver.step(...) except Exception: self.set_knobs_from_x(self.solver.x); raise":
           a failing solver step leaves the knobs on the last accepted point *)
        match jac_step fuel (this_broyden b i_step) s0 with
        | Ok s1 =>
            let s3 := log_step s1 in
            if lpwt s3 then Ok s3 else step_loop fuel n' (S i_step) b s3
        | Err e s1 => Err e (restore_x s1)
        | Div => Div
        end
    end.

  (* Optimize.step between the temporary enable/disable and their undoing *)
  Definition step_core (fuel : nat) (n : nat) (take_best : bool) (b : bro_mode) (s : state) : res state :=
    bind (add_point 0%N s) (fun s1 =>
    let i_log_start := pred (length (log s1)) in
    bind (step_loop fuel n 0 b s1) (fun s2 =>
    if take_best && negb (lpwt s2) then
      let ps := map r_pen (skipn i_log_start (log s2)) in
      let i_best := argmin ps in
      if Nat.eqb i_best (pred (length ps)) then Ok s2
      else bind (reload (i_best + i_log_start) s2) (fun s3 =>
           Ok (set_log s3 (set_last (fun r => mkRow (r_knobs r) (r_va r) (r_ta r) (r_pen r) (r_targets r)
                                                    (r_tolmet r) (r_hit r) (r_alpha r) 1%N) (log s3))))
    else Ok s2)).

  Record step_args := mkArgs {
    a_et : option sel; a_ev : option sel; a_evn : option sel;
    a_dt : option sel; a_dv : option sel; a_dvn : option sel }.
  Definition no_args := mkArgs None None None None None None.

  Definition pre_flags (a : step_args) (s : state) : state :=
    let s := able true (a_et a) None None s in
    let s := able true None (a_ev a) None s in
    let s := able false (a_dt a) None None s in
    let s := able false None (a_dv a) None s in
    let s := able false None None (a_dvn a) s in
    able true None None (a_evn a) s.
  Definition post_flags (a : step_args) (s : state) : state :=
    let s := able false (a_et a) None None s in
    let s := able false None (a_ev a) None s in
    let s := able true (a_dt a) None None s in
    let s := able true None (a_dv a) None s in
    let s := able true None None (a_dvn a) s in
    able false None None (a_evn a) s.

  (* Optimize._clip_to_limits: active knobs outside a limit are put on it *)
  Fixpoint clip_knobs (act : list bool) (lims : list (option (option F * option F))) (k : list F) : list F :=
    match act, lims, k with
    | a :: act', l :: lims', v :: k' =>
        (if a then
           match l with
           | Some (lo, hi) =>
               let v1 := match lo with Some a0 => if ltb v a0 then a0 else v | None => v end in
               match hi with Some b0 => if ltb b0 v then b0 else v1 | None => v1 end
           | None => v
           end
         else v) :: clip_knobs act' lims' k'
    | _, _, _ => k
    end.
  (* "if not self.check_limits: self._clip_to_limits()" *)
  Definition pre_clip (s : state) : state :=
    if c_check cf then s else set_knobs s (clip_knobs (va s) (c_lim cf) (knobs s)).

  (* Optimize.step *)
  Definition opt_step (fuel n : nat) (take_best : bool) (a : step_args) (b : bro_mode) (s : state) : res state :=
    bind (step_core fuel n take_best b (pre_flags a (pre_clip s))) (fun s' => Ok (post_flags a s')).

  (* Optimize.solve *)
  Definition solve (fuel : nat) (n : option nat) (take_best : bool) (b : bro_mode) (s : state) : res state :=
    let n := match n with Some k => k | None => c_nmax cf end in
    let x := knobs_to_x (knobs s) in
    let s0 := set_sx s (Some x) (map (fun _ => true) x) in
    let body := bind (opt_step fuel n take_best no_args b s0) (fun s1 =>
                if c_assert cf && negb (lpwt s1) then Err ERuntime s1 else Ok s1) in
    match body with
    | Ok s1 => Ok s1
    | Div => Div
    | Err e s1 =>
        if c_restore cf then
          match reload 0 s1 with
          | Ok s2 => Err e s2
          | Err e' s2 => Err e' s2
          | Div => Div
          end
        else Err e s1
    end.

  Inductive op :=
  | OStep (n : nat) (take_best : bool) (a : step_args) (b : bro_mode)
  | OSolve (n : option nat) (take_best : bool) (b : bro_mode)
  | OReload (i : nat)
  | OReloadTag (t : N)
  | OTag (t : N)
  | OClear
  | OEnable (t v vn : option sel)
  | ODisable (t v vn : option sel).

  Definition run_op (fuel : nat) (o : op) (s : state) : res state :=
    match o with
    | OStep n tb a b => opt_step fuel n tb a b s
    | OSolve n tb b => solve fuel n tb b s
    | OReload i => reload i s
    | OReloadTag t => reload_tag t s
    | OTag t => add_point t s
    | OClear => clear_log s
    | OEnable t v vn => Ok (able true t v vn s)
    | ODisable t v vn => Ok (able false t v vn s)
    end.

  (* Optimize.__init__: the object before its first add_point_to_log() *)
  Definition pre_init (k0 : list F) (va0 : list bool) : state :=
    mkState k0 va0 (map (fun _ => true) (c_tval cf)) None [] false [] [] zero (-2)%Z None [] 0.
  Definition init (k0 : list F) (va0 : list bool) : res state :=
    (* "data0[aa] = aa.run()": the actions are run once at the raw start point before anything else *)
    match f k0 with None => Err EUser (pre_init k0 va0) | Some _ =>
    if c_check cf then add_point 0%N (pre_init k0 va0)
    else bind (add_point 0%N (pre_init k0 va0)) (fun s1 =>
         add_point 0%N (set_knobs s1 (clip_knobs (va s1) (c_lim cf) (knobs s1))))
    end.

End Opt.

