(* Syntax shared by the table regenerated from xdeps/madxutils.py (and the
   part of xdeps/refs.py the MAD-X evaluators use), coq/gen/GenMadx.v, and
   the model coq/model/Madx.v.  Definitions only. *)
From Coq Require Import String List.
Import ListNotations.

(* ---- the Lark grammar text, rule by rule -------------------------------- *)
Inductive gsym :=
| GRule (n : string)            (* a rule (lower case)                       *)
| GTerm (n : string)            (* a named terminal (kept as a token child)  *)
| GLit (s : string)             (* an anonymous literal (filtered out)       *)
| GStar (l : list gsym).        (* ( ... )*                                  *)

Record galt := mk_galt { ga_syms : list gsym; ga_alias : option string }.
Record grule := mk_grule { gr_name : string; gr_inline : bool; gr_alts : list galt }.

Record gterm := mk_gterm { gt_name : string; gt_regex : string }.

Record grammar := mk_grammar {
  g_rules : list grule;
  g_terms : list gterm;            (* terminals defined by a regular expression *)
  g_imports : list string;         (* %import common.X                           *)
  g_ignore : list string }.        (* %ignore X                                  *)

(* ---- transformer callbacks ---------------------------------------------- *)
Inductive cexpr :=
| CParam (i : nat)               (* i-th positional parameter after self            *)
| CSelf (field : string)         (* self.<field>                                    *)
| CValue (e : cexpr)             (* e.value : the text of a token                   *)
| CGetItem (o k : cexpr)         (* o[k]                                            *)
| CGetAttr (o k : cexpr)         (* getattr(o, k)                                   *)
| CCallStar (f : cexpr)          (* f( *args ) with the star parameter of the method *)
| CTryKey (e : cexpr).           (* try: return e / except KeyError: raise Exception *)

Inductive callback :=
| CbOperator (name : string)     (* from operator import <name> [as alias]          *)
| CbBuiltin (name : string)      (* alias = <builtin name>, e.g. number = float     *)
| CbMethod (nparams : nat) (star : bool) (body : cexpr).

Record madx_eval_cfg := mk_cfg {
  cfg_inline_args : bool;                 (* @v_args(inline=True)                       *)
  cfg_init_fields : list (string * nat);  (* self.<field> = <i-th constructor argument> *)
  cfg_parser : string;                    (* Lark(..., parser=...)                      *)
  cfg_transformer_self : bool;            (* Lark(..., transformer=self)                *)
  cfg_attr_replace : string * string;     (* grammar.replace(a, b) when get == "attr"   *)
  cfg_attr_key : string * string }.       (* the parameter and the value that select it *)

(* MadxEnv: what the two evaluators are constructed over *)
Record madx_env_cfg := mk_envcfg {
  env_refs : list (string * string * string);   (* self.<ref> = manager.ref(<what>, label) *)
  env_madexpr : list string;                     (* arguments of MadxEval for madexpr       *)
  env_madeval : list string }.                   (* arguments of MadxEval for madeval       *)

(* ---- the part of refs.py reached by the deferred evaluator ---------------- *)
Record ref_tables := mk_reftab {
  rt_dunder_bin : list (string * (string * bool));   (* __op__ -> (class, operands swapped: Cls(other, self)) *)
  rt_dunder_un : list (string * string);             (* __neg__ -> class                                      *)
  rt_access : list (string * (string * bool));       (* __getitem__/__getattr__/__call__ -> (class, guarded by special_methods) *)
  rt_class_bin : list (string * (string * bool));    (* class -> (Python operator (ast name), ZeroDivisionError -> nan) *)
  rt_class_un : list (string * string);              (* class -> Python unary operator (ast name)             *)
  rt_class_access : list (string * string);          (* ItemRef/AttrRef/CallRef -> getitem/getattr/call       *)
  rt_mk_value_ok : bool;                             (* _mk_value: value._get_value() for refs, else the value *)
  rt_fields_ok : bool }.                             (* constructors store (lhs, rhs), (arg), (owner, key), (func, args) in order *)

(* ---- parse trees ---------------------------------------------------------- *)
(* What Lark returns for an expression of calc_grammar (all rules are inlined
   with '?', so every node is labelled by a rule alias).  The element access
   alias is "getitem" or, in attribute mode, its textual replacement. *)
Inductive mtree :=
| MNumber (tok : string)
| MNeg (a : mtree)
| MPos (a : mtree)
| MVar (name : string)
| MElem (elem key : string)
| MCall (f : string) (args : list mtree)
| MAdd (l r : mtree)
| MSub (l r : mtree)
| MMul (l r : mtree)
| MDiv (l r : mtree)
| MPow (l r : mtree).

Section MtreeInd.
  Variable P : mtree -> Prop.
  Hypothesis Hnum : forall t, P (MNumber t).
  Hypothesis Hneg : forall a, P a -> P (MNeg a).
  Hypothesis Hpos : forall a, P a -> P (MPos a).
  Hypothesis Hvar : forall n, P (MVar n).
  Hypothesis Helem : forall e k, P (MElem e k).
  Hypothesis Hcall : forall f args, Forall P args -> P (MCall f args).
  Hypothesis Hadd : forall l r, P l -> P r -> P (MAdd l r).
  Hypothesis Hsub : forall l r, P l -> P r -> P (MSub l r).
  Hypothesis Hmul : forall l r, P l -> P r -> P (MMul l r).
  Hypothesis Hdiv : forall l r, P l -> P r -> P (MDiv l r).
  Hypothesis Hpow : forall l r, P l -> P r -> P (MPow l r).

  Fixpoint mtree_ind' (t : mtree) : P t :=
    match t with
    | MNumber s => Hnum s
    | MNeg a => Hneg a (mtree_ind' a)
    | MPos a => Hpos a (mtree_ind' a)
    | MVar n => Hvar n
    | MElem e k => Helem e k
    | MCall f args =>
        Hcall f args
          ((fix go (l : list mtree) : Forall P l :=
              match l with [] => Forall_nil _ | x :: r => Forall_cons _ (mtree_ind' x) (go r) end) args)
    | MAdd l r => Hadd l r (mtree_ind' l) (mtree_ind' r)
    | MSub l r => Hsub l r (mtree_ind' l) (mtree_ind' r)
    | MMul l r => Hmul l r (mtree_ind' l) (mtree_ind' r)
    | MDiv l r => Hdiv l r (mtree_ind' l) (mtree_ind' r)
    | MPow l r => Hpow l r (mtree_ind' l) (mtree_ind' r)
    end.
End MtreeInd.
