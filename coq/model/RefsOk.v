(* The finite table obligations of C04, C05, C12 as boolean checks over a
   [tables] value, and well-formedness of terms.  Definitions only; the
   generic theorems (proofs/Refs*.v) assume these checks for an ARBITRARY
   table, props/C0x.v discharge them for gen/GenRefs.v by vm_compute. *)
From Coq Require Import List ZArith NArith Bool.
From XD Require Import model.RefSyntax model.RefTables model.Refs.
Import ListNotations.

Definition node_kind (k : kind) : bool :=
  match k with
  | KRef | KObjectAttr | KAttr | KItem | KBinOp | KUnaryOp | KLiteral | KBuiltin | KCall => true
  | _ => false
  end.
Definition node_kinds : list kind :=
  [KRef; KObjectAttr; KAttr; KItem; KLiteral; KBuiltin; KCall].

Definition shape_kind (t : term) : kind :=
  match t with
  | TConst _ => KOther
  | TTop _ false => KRef
  | TTop _ true => KObjectAttr
  | TItem _ _ => KItem
  | TAttr _ _ => KAttr
  | TBin _ _ _ => KBinOp
  | TUn _ _ => KUnaryOp
  | TLiteral _ => KLiteral
  | TBuiltin _ _ _ => KBuiltin
  | TCall _ _ _ => KCall
  end.

Section Ok.
  Variable T : tables.

  (* the classes Ref, ObjectAttrRef, AttrRef, ItemRef, LiteralExpr, BuiltinRef,
     CallRef exist and are found under their own kind *)
  Definition specials_ok : bool :=
    forallb (fun k => match special T k with Some c => kind_is T c k | None => false end) node_kinds.

  (* the class of the term is described by the tables, with the right role *)
  Definition cls_ok (t : term) : bool :=
    match class_of T t with Some c => kind_is T c (shape_kind t) | None => false end.

  (* terms as the overloads can build them: valid classes; the operand of a
     unary node, the owner of a location and the first argument of a builtin
     are references *)
  Fixpoint wf (t : term) : bool :=
    match t with
    | TConst _ => true
    | TTop _ _ => cls_ok t
    | TItem o k | TAttr o k => cls_ok t && is_ref o && wf o && wf k
    | TBin _ l r => cls_ok t && wf l && wf r
    | TUn _ a => cls_ok t && is_ref a && wf a
    | TLiteral _ => cls_ok t
    | TBuiltin _ a ps => cls_ok t && is_ref a && wf a && forallb wf ps
    | TCall f args kw => cls_ok t && wf f && forallb wf args && forallb (fun p => wf (snd p)) kw
    end.

  (* ---------------- C04 ------------------------------------------------------------ *)
  Definition args_are (c : ctor_call) (a : list argsel) : bool := list_eqb argsel_beq (cc_args c) a.

  (* K._get_value applies `op` to (lhs, rhs); NaN guard exactly for / // % *)
  Definition bin_class_ok (cls : N) (op : binop) : bool :=
    kind_is T cls KBinOp &&
    match class_bin T cls with
    | Some s => binop_beq (bs_op s) op && field_beq (bs_left s) FLhs && field_beq (bs_right s) FRhs
                && Bool.eqb (bs_guard s) (is_div op)
    | None => false
    end.

  (* forward dunder builds K(self, other); reflected dunder the same K with
     (other, self).  The ordering comparisons have no reflected dunder in
     Python (a < r is answered by r.__gt__(a)): __rlt__ & co are never called
     and are NOT constrained. _eq/_neq are plain methods. *)
  Definition binop_ok (op : binop) : bool :=
    if is_eqne op then
      match dunder_bin T op DMeth with
      | Some c => args_are c [ASelf; AOther] && bin_class_ok (cc_cls c) op
      | None => false
      end
    else
      match dunder_bin T op DFwd with
      | Some c =>
          args_are c [ASelf; AOther] && bin_class_ok (cc_cls c) op &&
          (is_cmp op ||
           match dunder_bin T op DRefl with
           | Some c' => N.eqb (cc_cls c') (cc_cls c) && args_are c' [AOther; ASelf]
           | None => false
           end)
      | None => false
      end.

  Definition unop_ok (op : unop) : bool :=
    match dunder_un T op with
    | Some c =>
        args_are c [ASelf] && kind_is T (cc_cls c) KUnaryOp &&
        match class_un T (cc_cls c) with
        | Some s => unop_beq (us_op s) op && field_beq (us_arg s) FArg
        | None => false
        end
    | None => false
    end.

  Definition bcall_is (c : builtin_call) (f : bfun) (ps : list argsel) : bool :=
    match builtin_fn T (bc_fn c) with Some g => bfun_beq g f | None => false end
    && list_eqb argsel_beq (bc_params c) ps.

  Definition is_none_lit (d : option lit) : bool := match d with Some LNone => true | _ => false end.
  Definition is_nothing {A} (d : option A) : bool := match d with None => true | _ => false end.

  (* abs(x), math.trunc/floor/ceil(x): the function on x alone;  round(x): round
     on x alone, round(x, n): round on (x, n);  divmod(x, y): divmod on (x, y) *)
  Definition builtin_ok (f : bfun) : bool :=
    match dunder_builtin T f with
    | None => false
    | Some e =>
        match f with
        | FRound =>
            be_has_param e && is_none_lit (be_default e) &&
            match be_if_none e with Some c0 => bcall_is c0 FRound [] | None => false end &&
            bcall_is (be_main e) FRound [AOther]
        | FDivmod =>
            be_has_param e && is_nothing (be_default e) && is_nothing (be_if_none e) &&
            bcall_is (be_main e) FDivmod [AOther]
        | _ => negb (be_has_param e) && bcall_is (be_main e) f []
        end
    end.

  (* every in-place operator of Python has a dunder that applies that same
     operator, target first, to the old expression and to the old value *)
  Definition inplace_ok (op : binop) : bool :=
    match inplace_of T op with
    | Some (Some e) => binop_beq (ie_expr_op e) op && ie_expr_self_first e
                       && binop_beq (ie_val_op e) op && ie_val_self_first e
    | _ => false
    end.

  (* x[k] builds an ItemRef, x.a an AttrRef (an ItemRef on an ObjectAttrRef
     container), x(...) a CallRef -- for every node class *)
  Definition access_ok (ci : class_info) : bool :=
    negb (node_kind (ci_kind ci)) ||
    (match access T (ci_id ci) AccGetitem with Some b => kind_is T b KItem | None => false end &&
     match access T (ci_id ci) AccGetattr with
     | Some b => kind_is T b (match ci_kind ci with KObjectAttr => KItem | _ => KAttr end)
     | None => false end &&
     match access T (ci_id ci) AccCall with Some b => kind_is T b KCall | None => false end).

  (* the names __getattr__ refuses to defer are protocol names __x__ : every
     ordinary attribute of a value (dtype, shape, real, T, a method name ...)
     can be reached through a reference *)
  Definition is_dunder (n : pystr) : bool :=
    match n with
    | 95%N :: 95%N :: _ =>
        match rev n with 95%N :: 95%N :: _ => Nat.leb 5 (length n) | _ => false end
    | _ => false
    end.
  Definition special_names_ok : bool := forallb is_dunder (t_special_names T).

  Definition tables_ok : bool :=
    special_names_ok &&
    specials_ok &&
    forallb binop_ok all_binops && forallb unop_ok all_unops && forallb builtin_ok all_bfuns &&
    forallb inplace_ok inplace_ops && forallb access_ok (t_classes T).

  (* ---------------- C05 ------------------------------------------------------------ *)
  (* operand slots of a node that can hold a reference *)
  Inductive slot := S1 (f : field) | SEach (f : field) | SEachSnd (f : field) | SSelf.

  Definition slot_beq (a b : slot) : bool :=
    match a, b with
    | S1 f, S1 g | SEach f, SEach g | SEachSnd f, SEachSnd g => field_beq f g
    | SSelf, SSelf => true
    | _, _ => false
    end.

  Definition step_slot (st : dstep) : slot :=
    match st with
    | DField f _ => S1 f | DEach f _ => SEach f | DEachSnd f _ => SEachSnd f | DAddSelf => SSelf
    end.

  Definition required (k : kind) : list slot :=
    match k with
    | KItem | KAttr => [S1 FOwner; S1 FKey; SSelf]
    | KBinOp => [S1 FLhs; S1 FRhs]
    | KUnaryOp => [S1 FArg]
    | KBuiltin => [S1 FArg; SEach FParams]
    | KCall => [S1 FFunc; SEach FArgs; SEachSnd FKwargs]
    | _ => []
    end.

  (* fields that always hold a reference (see wf): descending without the
     isinstance guard is safe there *)
  Definition always_ref (k : kind) (f : field) : bool :=
    match k, f with
    | KItem, FOwner | KAttr, FOwner | KUnaryOp, FArg | KBuiltin, FArg => true
    | _, _ => false
    end.

  Definition step_allowed (k : kind) (st : dstep) : bool :=
    existsb (slot_beq (step_slot st)) (required k) &&
    match st with
    | DField f g => g || always_ref k f
    | DEach _ g | DEachSnd _ g => g
    | DAddSelf => true
    end.

  Definition steps_ok (k : kind) (sts : list dstep) : bool :=
    forallb (step_allowed k) sts &&
    forallb (fun s => existsb (fun st => slot_beq (step_slot st) s) sts) (required k).

  Definition no_steps (sts : list dstep) : bool := match sts with [] => true | _ => false end.

  (* the traversal visits every slot, adds self exactly for locations, and
     returns a set on every path *)
  Definition trav_ok (k : kind) (tr : traversal) : bool :=
    match tr_ret tr with
    | ROut => tr_init tr && steps_ok k (tr_steps tr)
    | ROutOrSet => (tr_init tr || no_steps (tr_steps tr)) && steps_ok k (tr_steps tr)
    | RCallee f => no_steps (tr_steps tr) && always_ref k f &&
                   match required k with [S1 g] => field_beq f g | _ => false end
    end.

  Definition class_deps_ok (ci : class_info) : bool :=
    negb (node_kind (ci_kind ci)) ||
    match deps_of T (ci_id ci) with Some tr => trav_ok (ci_kind ci) tr | None => false end.

  Definition fields_ok : bool := specials_ok && forallb class_deps_ok (t_classes T).

  (* ---------------- C12 ------------------------------------------------------------ *)
  Fixpoint positions_ok (asg : list (field * nat * bool)) (fs : list field) (i : nat) : bool :=
    match fs with
    | [] => true
    | f :: r => match assign_of asg f with Some j => Nat.eqb j i | None => false end && positions_ok asg r (S i)
    end.

  (* the tuple of __reduce__ has one element per __cinit__ parameter, element i
     is the attribute that __cinit__ stores from parameter i, and every
     attribute of the node is in the tuple *)
  Definition class_sig_ok (ci : class_info) : bool :=
    negb (node_kind (ci_kind ci)) ||
    match reduce_of T (ci_id ci), cinit_of T (ci_id ci), cinit_assign_of T (ci_id ci) with
    | Some fs, Some ps, Some asg =>
        Nat.eqb (length fs) (length ps) &&
        forallb (fun f => existsb (field_beq f) fs) (fields_of_kind (ci_kind ci)) &&
        positions_ok asg fs 0
    | _, _, _ => false
    end.

  Definition sig_ok : bool := specials_ok && forallb class_sig_ok (t_classes T).
End Ok.
