(* The derived properties of MutableRef that consult the manager, as functions
   of the manager's definitions (model/Refs.v [tasklist]: (target, expression)
   pairs in registration order).  Definitions only.

     expr_of      ref._expr                    the expression of the task registered
                                               under EXACTLY this reference, else None
     tasks_of     ref._tasks                   manager.tartasks[ref]: the tasks that write
                                               the location or one of its members
     dependants   ref._find_dependant_targets  closure of manager.rdeps from the reference
     inplace_at   ref op= other                built from the reference's OWN definition
                                               when it has one, else from its current value *)
From Coq Require Import List ZArith NArith Bool.
From XD Require Import model.RefSyntax model.RefTables model.Refs.
Import ListNotations.

Definition expr_of (m : tasklist) (r : term) : option term :=
  option_map snd (find (fun p => term_eqb (fst p) r) m).

Definition mem_term (x : term) (l : list term) : bool := existsb (term_eqb x) l.

(* ExprTask.targets = target._get_dependencies() = occ target (C05): the target
   and the locations above it (and inside a computed key) *)
Definition tasks_of (m : tasklist) (r : term) : list term :=
  map fst (filter (fun p => mem_term r (occ (fst p))) m).

(* rdeps[d] gets the targets of every task that has d among its dependencies *)
Definition direct_dependants (m : tasklist) (r : term) : list term :=
  flat_map (fun p => if mem_term r (occ (snd p)) then occ (fst p) else []) m.

Fixpoint reach (fuel : nat) (m : tasklist) (seen : list term) : list term :=
  match fuel with
  | O => seen
  | S f =>
      let new := filter (fun x => negb (mem_term x seen)) (flat_map (direct_dependants m) seen) in
      match new with
      | [] => seen
      | _ => reach f m (seen ++ new)
      end
  end.

(* find_deps([ref]): the reference itself and everything downstream *)
Definition dependants (m : tasklist) (r : term) : list term :=
  reach (S (length (flat_map (fun p => occ (fst p)) m))) m [r].

Section InplaceAt.
  Variables V E : Type.
  Variable of_lit : lit -> V.
  Variable pyop : binop -> V -> V -> res V E.
  Variable T : tables.

  (* plain value op= plain operand: Python's operator on the two values (the old
     value need not be a hashable literal: a list, an array, a string ...) *)
  Definition inplace_val (op : binop) (target : term) (oldv : V) (other : term) : option (inpl_res V E) :=
    match inplace_of T op, other with
    | None, _ => None
    | Some None, _ => option_map IExpr (apply_bin T op target other)
    | Some (Some e), TConst k =>
        Some (IVal (if ie_val_self_first e then pyop (ie_val_op e) oldv (of_lit k)
                    else pyop (ie_val_op e) (of_lit k) oldv))
    | Some (Some _), _ => None
    end.

  (* target op= other in a manager with definitions m.
       oldv : the current value of the location
       oldl : the same as a literal, when it is one (needed only when the operand
              is a reference: the old value then becomes a literal operand) *)
  Definition inplace_at (op : binop) (m : tasklist) (target : term) (oldv : V) (oldl : option lit) (other : term)
    : option (inpl_res V E) :=
    match expr_of m target with
    | Some ex => inplace V E of_lit pyop T op target (Some ex) LNone other
    | None =>
        match other, oldl with
        | TConst _, _ => inplace_val op target oldv other
        | _, Some l => inplace V E of_lit pyop T op target None l other
        | _, None => None
        end
    end.
End InplaceAt.
