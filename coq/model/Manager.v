(* Executable model of the dependency manager of xdeps/tasks.py — graph layer.

   Mirrors, statement by statement: RefCount.append/extend/remove, the four
   indices (insertion-ordered dicts with defaultdict reads that create empty
   entries), Manager.register, Manager.unregister, find_taskids /
   find_tasks (with sorting.toposort), freeze/unfreeze, cleanup, refresh,
   clone, verify.  Keys (references and task ids) are an arbitrary type K
   with a boolean equality; Python sets (task.dependencies, task.targets,
   the start set of find_taskids) are duplicate-free lists whose order is
   supplied from outside (the iteration order is an oracle).

   Definitions only; proofs are in proofs/Manager*.v. *)
From Coq Require Import List Bool Arith Lia.
From XD Require Import lib.ListAux lib.Toposort.
Import ListNotations.

Inductive merr :=
| EFrozen            (* ValueError: tree is frozen *)
| EKey               (* KeyError *)
| EOracle            (* the supplied set order is not a permutation of the set (harness error) *)
| EValue             (* ValueError (verify: inconsistent) *)
| EType              (* TypeError / other evaluation error of an action *)
| EFault.            (* an injected fault of a container write *)

Inductive res (A : Type) := Ok (a : A) | Err (e : merr).
Arguments Ok {A} a.
Arguments Err {A} e.

Section Mgr.
Context {K A : Type}.            (* keys; action payload of a task *)
Variable eqb : K -> K -> bool.

(* ---- RefCount ------------------------------------------------------------ *)
Definition refcount := list (K * nat).

Definition rc_mem (k : K) (rc : refcount) : bool :=
  match aget eqb k rc with Some _ => true | None => false end.

(* self[item] = self.get(item, 0) + 1 *)
Definition rc_append (k : K) (rc : refcount) : refcount :=
  aset eqb k (match aget eqb k rc with Some n => S n | None => 1 end) rc.

Definition rc_extend (ks : list K) (rc : refcount) : refcount :=
  fold_left (fun rc k => rc_append k rc) ks rc.

(* occ = self[item]  (KeyError);  if occ > 1: self[item] = occ - 1 else del *)
Definition rc_remove (k : K) (rc : refcount) : option refcount :=
  match aget eqb k rc with
  | None => None
  | Some n => if 1 <? n then Some (aset eqb k (n - 1) rc) else Some (adrop eqb k rc)
  end.

Definition rc_remove_if (k : K) (rc : refcount) : refcount :=
  match rc_remove k rc with Some rc' => rc' | None => rc end.

Definition rc_keys (rc : refcount) : list K := map fst rc.

(* ---- an index: defaultdict(RefCount) ------------------------------------- *)
Definition index := list (K * refcount).

(* d[k] on a defaultdict: creates an empty entry when absent *)
Definition iget (k : K) (d : index) : refcount * index :=
  match aget eqb k d with
  | Some rc => (rc, d)
  | None => ([], d ++ [(k, [])])
  end.

Definition ipeek (k : K) (d : index) : refcount :=
  match aget eqb k d with Some rc => rc | None => [] end.

Definition iupd (k : K) (f : refcount -> refcount) (d : index) : index :=
  let '(rc, d') := iget k d in aset eqb k (f rc) d'.

(* ---- tasks and the manager ------------------------------------------------ *)
Record task := mkTask {
  t_id : K;
  t_targets : list K;        (* task.targets, in the order the set iterates *)
  t_deps : list K;           (* task.dependencies, idem *)
  t_act : A
}.

Record mgr := mkMgr {
  m_tasks : list (K * task);
  m_rdeps : index;
  m_rtasks : index;
  m_deptasks : index;
  m_tartasks : index;
  m_frozen : bool
}.

Definition empty_mgr : mgr := mkMgr [] [] [] [] [] false.

Definition set_frozen (b : bool) (m : mgr) : mgr :=
  mkMgr (m_tasks m) (m_rdeps m) (m_rtasks m) (m_deptasks m) (m_tartasks m) b.

(* ---- register -------------------------------------------------------------- *)
(* for dep in task.dependencies:
       self.rdeps[dep].extend(task.targets)
       self.deptasks[dep].append(taskid)
       for deptask in self.tartasks[dep]: self.rtasks[deptask].append(taskid) *)
Definition reg_dep (tid : K) (targets : list K) (m : mgr) (dep : K) : mgr :=
  let rd := iupd dep (rc_extend targets) (m_rdeps m) in
  let dt := iupd dep (rc_append tid) (m_deptasks m) in
  let '(tks, tart) := iget dep (m_tartasks m) in
  let rt := fold_left (fun rt deptask => iupd deptask (rc_append tid) rt) (rc_keys tks) (m_rtasks m) in
  mkMgr (m_tasks m) rd rt dt tart (m_frozen m).

(* for tar in task.targets:
       self.tartasks[tar].append(taskid)
       for deptask in self.deptasks[tar]: self.rtasks[taskid].append(deptask) *)
Definition reg_tar (tid : K) (m : mgr) (tar : K) : mgr :=
  let tart := iupd tar (rc_append tid) (m_tartasks m) in
  let '(other, dt) := iget tar (m_deptasks m) in
  let rt := fold_left (fun rt deptask => iupd tid (rc_append deptask) rt) (rc_keys other) (m_rtasks m) in
  mkMgr (m_tasks m) (m_rdeps m) rt dt tart (m_frozen m).

Definition register_nofreeze (t : task) (m : mgr) : mgr :=
  let m0 := mkMgr (aset eqb (t_id t) t (m_tasks m)) (m_rdeps m) (m_rtasks m) (m_deptasks m) (m_tartasks m) (m_frozen m) in
  let m1 := fold_left (reg_dep (t_id t) (t_targets t)) (t_deps t) m0 in
  fold_left (reg_tar (t_id t)) (t_targets t) m1.

Definition register (t : task) (m : mgr) : res mgr :=
  if m_frozen m then Err EFrozen else Ok (register_nofreeze t m).

(* ---- unregister ------------------------------------------------------------ *)
(* if v in d[k]: d[k].remove(v)       (d[k] is a defaultdict read) *)
Definition idec (k v : K) (d : index) : index :=
  let '(rc, d') := iget k d in
  if rc_mem v rc then aset eqb k (rc_remove_if v rc) d' else d'.

Definition unreg_dep (tid : K) (targets : list K) (m : mgr) (dep : K) : mgr :=
  (* for target in task.targets: if target in self.rdeps[dep]: self.rdeps[dep].remove(target) *)
  let rd := fold_left (fun rd target => idec dep target rd) targets (m_rdeps m) in
  (* for deptask in self.tartasks[dep]: if taskid in self.rtasks[deptask]: self.rtasks[deptask].remove(taskid) *)
  let '(tks, tart) := iget dep (m_tartasks m) in
  let rt := fold_left (fun rt deptask => idec deptask tid rt) (rc_keys tks) (m_rtasks m) in
  (* if taskid in self.deptasks[dep]: self.deptasks[dep].remove(taskid) *)
  let dt' := idec dep tid (m_deptasks m) in
  mkMgr (m_tasks m) rd rt dt' tart (m_frozen m).

(* for tar in task.targets: self.tartasks[tar].remove(taskid)   -- KeyError when absent *)
Fixpoint unreg_tars (tid : K) (tars : list K) (tart : index) : option index :=
  match tars with
  | [] => Some tart
  | tar :: rest =>
      let '(rc, tart') := iget tar tart in
      match rc_remove tid rc with
      | None => None
      | Some rc' => unreg_tars tid rest (aset eqb tar rc' tart')
      end
  end.

Definition unregister (tid : K) (m : mgr) : res mgr :=
  if m_frozen m then Err EFrozen else
  match aget eqb tid (m_tasks m) with
  | None => Err EKey
  | Some t =>
      let m1 := fold_left (unreg_dep tid (t_targets t)) (t_deps t) m in
      match unreg_tars tid (t_targets t) (m_tartasks m1) with
      | None => Err EKey
      | Some tart =>
          Ok (mkMgr (adrop eqb tid (m_tasks m1)) (m_rdeps m1) (adrop eqb tid (m_rtasks m1))
                    (m_deptasks m1) tart (m_frozen m1))
      end
  end.

(* ---- find_taskids / find_tasks ---------------------------------------------- *)
Definition add_new (l : list K) (k : K) : list K := if mem eqb k l then l else l ++ [k].

(* start_tasks = set(); for dep in start_deps: start_tasks.update(self.deptasks[dep]) *)
Definition start_set (start_deps : list K) (dt : index) : list K * index :=
  fold_left (fun acc dep => let '(set, dt) := acc in
                            let '(rc, dt') := iget dep dt in
                            (fold_left add_new (rc_keys rc) set, dt'))
            start_deps ([], dt).

Definition nodupb (l : list K) : bool :=
  (fix go (l seen : list K) : bool :=
     match l with [] => true | x :: r => negb (mem eqb x seen) && go r (x :: seen) end) l [].

Definition same_set (a b : list K) : bool :=
  Nat.eqb (length a) (length b) && nodupb a && nodupb b && forallb (fun x => mem eqb x b) a.

(* graph.get(source, []) on self.rtasks *)
Definition succs (rt : index) (k : K) : list K := rc_keys (ipeek k rt).

Definition graph_size (rt : index) : nat :=
  fold_left (fun n p => n + 1 + length (snd p)) rt 0.

(* find_taskids(start_deps) with the iteration order of the start set given *)
Definition find_taskids (m : mgr) (start_deps : list K) (order : list K) : res (list K * mgr) :=
  let '(set, dt) := start_set start_deps (m_deptasks m) in
  let m' := mkMgr (m_tasks m) (m_rdeps m) (m_rtasks m) dt (m_tartasks m) (m_frozen m) in
  if same_set order set then
    Ok (toposort eqb (succs (m_rtasks m)) (S (graph_size (m_rtasks m) + length order)) order, m')
  else Err EOracle.

(* [self.tasks[taskid] for taskid in ...] *)
Fixpoint lookup_tasks (ts : list (K * task)) (ids : list K) : res (list task) :=
  match ids with
  | [] => Ok []
  | i :: rest =>
      match aget eqb i ts with
      | None => Err EKey
      | Some t => match lookup_tasks ts rest with Ok l => Ok (t :: l) | Err e => Err e end
      end
  end.

Definition find_tasks (m : mgr) (start_deps : list K) (order : list K) : res (list task * mgr) :=
  match find_taskids m start_deps order with
  | Err e => Err e
  | Ok (ids, m') => match lookup_tasks (m_tasks m') ids with Ok l => Ok (l, m') | Err e => Err e end
  end.

(* ---- cleanup / refresh / clone / verify ---------------------------------------- *)
Definition cleanup_index (d : index) : index :=
  filter (fun p => negb (Nat.eqb (length (snd p)) 0)) d.

Definition cleanup (m : mgr) : mgr :=
  mkMgr (m_tasks m) (cleanup_index (m_rdeps m)) (cleanup_index (m_rtasks m))
        (cleanup_index (m_deptasks m)) (cleanup_index (m_tartasks m)) (m_frozen m).

(* other = Manager(); for task in self.tasks.values(): other.register(task); other.cleanup() *)
Definition clone (m : mgr) : mgr :=
  cleanup (fold_left (fun o p => register_nofreeze (snd p) o) (m_tasks m) empty_mgr).

(* refresh (after the fix: frozen test first) *)
Definition refresh (m : mgr) : res mgr :=
  if m_frozen m then Err EFrozen else
  let o := fold_left (fun o p => register_nofreeze (snd p) o) (m_tasks m)
                     (mkMgr (m_tasks m) [] [] [] [] false) in
  Ok (cleanup o).

(* set(ss) != set(odct[kk]) for every kk of self's dict *)
Definition keys_equiv (a b : refcount) : bool :=
  forallb (fun k => rc_mem k b) (rc_keys a) && forallb (fun k => rc_mem k a) (rc_keys b).

Definition verify_index (mine theirs : index) : bool :=
  forallb (fun p => keys_equiv (snd p) (ipeek (fst p) theirs)) mine.

Definition verify (m : mgr) : res mgr :=
  let m1 := cleanup m in
  let o := clone m1 in
  if verify_index (m_rdeps m1) (m_rdeps o) && verify_index (m_rtasks m1) (m_rtasks o)
     && verify_index (m_deptasks m1) (m_deptasks o) && verify_index (m_tartasks m1) (m_tartasks o)
  then Ok m1 else Err EValue.

End Mgr.

Arguments mkTask {K A}.
Arguments mkMgr {K A}.
Arguments empty_mgr {K A}.
