(* Executable instance of Python's semantics for the correspondence check of
   C04: exact Python integer/bool arithmetic (floor division and modulo with
   the sign of the divisor, ** on non-negative exponents, two's-complement
   bitwise operators, arithmetic shifts), NaN propagation, containers
   (dict / list / tuple / attribute objects) and two test functions.
   Whatever lies outside (finite floats, huge ints meeting NaN, strings as
   operands, ...) yields EUnsupported: such cases are not compared.
   Definitions only. *)
From Coq Require Import List ZArith NArith Bool.
From XD Require Import model.RefSyntax model.RefTables model.Refs.
Import ListNotations.
Open Scope Z_scope.

Inductive zv :=
| ZInt (z : Z) | ZBool (b : bool) | ZNan | ZNone | ZStr (s : pystr)
| ZTup (l : list zv)
| ZList (l : list zv)
| ZDict (items : list (zv * zv))
| ZObj (attrs : list (pystr * zv))
| ZFun (id : N)
| ZOpaque (tok : N).

Inductive zerr :=
| EZeroDiv | ETypeError | EKeyError | EIndexError | EAttributeError | EValueError | EOverflow
| EUnsupported | EBroken.

Definition zres := res zv zerr.

Fixpoint zv_eqb (a b : zv) : bool :=
  match a, b with
  | ZInt x, ZInt y => Z.eqb x y
  | ZBool x, ZBool y => Bool.eqb x y
  | ZNan, ZNan => true
  | ZNone, ZNone => true
  | ZStr x, ZStr y => pystr_eqb x y
  | ZTup x, ZTup y | ZList x, ZList y =>
      (fix go (l m : list zv) : bool :=
         match l, m with
         | [], [] => true
         | p :: l', q :: m' => zv_eqb p q && go l' m'
         | _, _ => false
         end) x y
  | ZDict x, ZDict y =>
      (fix go (l m : list (zv * zv)) : bool :=
         match l, m with
         | [], [] => true
         | p :: l', q :: m' => zv_eqb (fst p) (fst q) && zv_eqb (snd p) (snd q) && go l' m'
         | _, _ => false
         end) x y
  | ZObj x, ZObj y =>
      (fix go (l m : list (pystr * zv)) : bool :=
         match l, m with
         | [], [] => true
         | p :: l', q :: m' => pystr_eqb (fst p) (fst q) && zv_eqb (snd p) (snd q) && go l' m'
         | _, _ => false
         end) x y
  | ZFun x, ZFun y => N.eqb x y
  | ZOpaque x, ZOpaque y => N.eqb x y
  | _, _ => false
  end.

Definition zerr_eqb (a b : zerr) : bool :=
  match a, b with
  | EZeroDiv, EZeroDiv | ETypeError, ETypeError | EKeyError, EKeyError | EIndexError, EIndexError
  | EAttributeError, EAttributeError | EValueError, EValueError | EOverflow, EOverflow
  | EUnsupported, EUnsupported | EBroken, EBroken => true
  | _, _ => false
  end.

Fixpoint z_of_lit (v : lit) : zv :=
  match v with
  | LInt z => ZInt z
  | LBool b => ZBool b
  | LFloat t => ZOpaque t
  | LStr s => ZStr s
  | LNone => ZNone
  | LTup l => ZTup (map z_of_lit l)
  end.

(* numbers: ints (bool is an int) and NaN *)
Inductive num := NInt (z : Z) | NNan.
Definition b2z (b : bool) : Z := if b then 1 else 0.
Definition to_num (v : zv) : option num :=
  match v with ZInt z => Some (NInt z) | ZBool b => Some (NInt (b2z b)) | ZNan => Some NNan | _ => None end.
Definition is_bool (v : zv) : bool := match v with ZBool _ => true | _ => false end.

(* an int this large cannot be converted to float (OverflowError) or nearly so:
   outside the instance *)
Definition huge (z : Z) : bool := Z.leb (2 ^ 1000) (Z.abs z).

Definition z_bitop (f : Z -> Z -> Z) (a b : zv) (x y : Z) : zres :=
  if is_bool a && is_bool b then Ok (ZBool (negb (Z.eqb (f x y) 0))) else Ok (ZInt (f x y)).

Definition z_pyop (op : binop) (a b : zv) : zres :=
  match to_num a, to_num b with
  | Some (NInt x), Some (NInt y) =>
      match op with
      | OAdd => Ok (ZInt (x + y))
      | OSub => Ok (ZInt (x - y))
      | OMul => Ok (ZInt (x * y))
      | OMatmul => Err ETypeError
      | OTruediv => if Z.eqb y 0 then Err EZeroDiv else Err EUnsupported
      | OFloordiv => if Z.eqb y 0 then Err EZeroDiv else Ok (ZInt (x / y))
      | OMod => if Z.eqb y 0 then Err EZeroDiv else Ok (ZInt (x mod y))
      | OPow => if Z.ltb y 0 then (if Z.eqb x 0 then Err EZeroDiv else Err EUnsupported)
                else Ok (ZInt (x ^ y))
      | OAnd => z_bitop Z.land a b x y
      | OOr => z_bitop Z.lor a b x y
      | OXor => z_bitop Z.lxor a b x y
      | OLt => Ok (ZBool (Z.ltb x y))
      | OLe => Ok (ZBool (Z.leb x y))
      | OEq => Ok (ZBool (Z.eqb x y))
      | ONe => Ok (ZBool (negb (Z.eqb x y)))
      | OGe => Ok (ZBool (Z.geb x y))
      | OGt => Ok (ZBool (Z.gtb x y))
      | ORshift => if Z.ltb y 0 then Err EValueError else Ok (ZInt (Z.shiftr x y))
      | OLshift => if Z.ltb y 0 then Err EValueError else Ok (ZInt (Z.shiftl x y))
      end
  | Some p, Some q =>            (* at least one NaN *)
      let big := match p, q with NInt x, _ => huge x | _, NInt y => huge y | _, _ => false end in
      let zero_div := match q with NInt y => Z.eqb y 0 | NNan => false end in
      match op with
      | OAdd | OSub | OMul => if big then Err EUnsupported else Ok ZNan
      | OTruediv | OFloordiv | OMod =>
          if big then Err EUnsupported else if zero_div then Err EZeroDiv else Ok ZNan
      | OPow => Err EUnsupported
      | OMatmul | OAnd | OOr | OXor | ORshift | OLshift => Err ETypeError
      | OLt | OLe | OEq | OGe | OGt => Ok (ZBool false)
      | ONe => Ok (ZBool true)
      end
  | _, _ => Err EUnsupported
  end.

Definition z_pyun (op : unop) (a : zv) : zres :=
  match to_num a with
  | Some (NInt x) =>
      match op with UNeg => Ok (ZInt (- x)) | UPos => Ok (ZInt x) | UInvert => Ok (ZInt (- x - 1)) end
  | Some NNan => match op with UInvert => Err ETypeError | _ => Ok ZNan end
  | None => Err EUnsupported
  end.

Definition z_pybuiltin (f : bfun) (args : list zv) : zres :=
  match f, args with
  | FAbs, [v] => match to_num v with
                 | Some (NInt x) => Ok (ZInt (Z.abs x)) | Some NNan => Ok ZNan | None => Err EUnsupported end
  | FRound, [v] | FTrunc, [v] | FFloor, [v] | FCeil, [v] =>
      match to_num v with
      | Some (NInt x) => Ok (ZInt x) | Some NNan => Err EValueError | None => Err EUnsupported end
  | FRound, [v; n] =>
      match to_num v, to_num n with
      | Some (NInt x), Some (NInt k) => if Z.ltb k 0 then Err EUnsupported else Ok (ZInt x)
      | Some NNan, Some (NInt _) => Ok ZNan
      | Some _, Some NNan => Err ETypeError
      | _, _ => Err EUnsupported
      end
  | FDivmod, [a; b] =>
      match to_num a, to_num b with
      | Some (NInt x), Some (NInt y) =>
          if Z.eqb y 0 then Err EZeroDiv else Ok (ZTup [ZInt (x / y); ZInt (x mod y)])
      | Some p, Some q =>
          let big := match p, q with NInt x, _ => huge x | _, NInt y => huge y | _, _ => false end in
          if big then Err EUnsupported
          else match q with
               | NInt y => if Z.eqb y 0 then Err EZeroDiv else Ok (ZTup [ZNan; ZNan])
               | NNan => Ok (ZTup [ZNan; ZNan])
               end
      | _, _ => Err EUnsupported
      end
  | _, _ => Err EUnsupported
  end.

(* the test functions the harness puts into the containers:
     F0(a..., k...) = sum (i+1) a[i] + sum ord(name[0]) k[name]   (any positional and keyword arguments)
     F1(x, y=10) = x - y                                          *)
Definition as_int (v : zv) : option Z :=
  match v with ZInt z => Some z | ZBool b => Some (b2z b) | _ => None end.

Fixpoint f0_pos (i : Z) (l : list zv) : option Z :=
  match l with
  | [] => Some 0
  | v :: r => match as_int v, f0_pos (i + 1) r with Some x, Some s => Some (i * x + s) | _, _ => None end
  end.
Fixpoint f0_kw (l : list (pystr * zv)) : option Z :=
  match l with
  | [] => Some 0
  | (n, v) :: r =>
      match as_int v, f0_kw r with
      | Some x, Some s => Some (Z.of_N (hd 0%N n) * x + s)
      | _, _ => None
      end
  end.

Definition name_y : pystr := [121%N].

Definition z_pycall (f : zv) (args : list zv) (kw : list (pystr * zv)) : zres :=
  match f with
  | ZFun 0%N =>
      match f0_pos 1 args, f0_kw kw with
      | Some a, Some b => Ok (ZInt (a + b))
      | _, _ => Err EUnsupported
      end
  | ZFun 1%N =>
      match args, kw with
      | [x], [] => match as_int x with Some a => Ok (ZInt (a - 10)) | None => Err EUnsupported end
      | [x; y], [] =>
          match as_int x, as_int y with Some a, Some b => Ok (ZInt (a - b)) | _, _ => Err EUnsupported end
      | [x], [(n, y)] =>
          if pystr_eqb n name_y then
            match as_int x, as_int y with Some a, Some b => Ok (ZInt (a - b)) | _, _ => Err EUnsupported end
          else Err ETypeError
      | _, _ => Err ETypeError
      end
  | ZFun _ => Err EUnsupported
  | ZOpaque _ => Err EUnsupported
  | _ => Err ETypeError                       (* not callable *)
  end.

(* keys: ints (bool counts as int) and strings *)
Definition key_eqb (a b : zv) : bool :=
  match as_int a, as_int b with
  | Some x, Some y => Z.eqb x y
  | _, _ => match a, b with ZStr s, ZStr t => pystr_eqb s t | _, _ => false end
  end.

Definition z_getitem (c k : zv) : zres :=
  match c with
  | ZDict items =>
      match k with
      | ZInt _ | ZBool _ | ZStr _ | ZNan | ZNone =>
          match find (fun p => key_eqb (fst p) k) items with
          | Some p => Ok (snd p)
          | None => Err EKeyError
          end
      | _ => Err EUnsupported
      end
  | ZList l | ZTup l =>
      match as_int k with
      | Some i =>
          let n := Z.of_nat (length l) in
          let j := if Z.ltb i 0 then i + n else i in
          if Z.ltb j 0 || Z.leb n j then Err EIndexError
          else match nth_error l (Z.to_nat j) with Some v => Ok v | None => Err EIndexError end
      | None => match k with ZNan | ZStr _ | ZNone => Err ETypeError | _ => Err EUnsupported end
      end
  | ZInt _ | ZBool _ | ZNan | ZNone | ZFun _ => Err ETypeError
  | _ => Err EUnsupported
  end.

Definition z_getattr (o name : zv) : zres :=
  match name with
  | ZStr s =>
      match o with
      | ZObj attrs =>
          match find (fun p => pystr_eqb (fst p) s) attrs with
          | Some p => Ok (snd p)
          | None => Err EAttributeError
          end
      | ZDict _ | ZList _ | ZNone => Err EAttributeError
      | _ => Err EUnsupported
      end
  | _ => Err EUnsupported
  end.

Definition z_is_zde (e : zerr) : bool := match e with EZeroDiv => true | _ => false end.

Definition zenv_of (l : list (pystr * zv)) : env zv :=
  fun name => match find (fun p => pystr_eqb (fst p) name) l with Some p => snd p | None => ZNone end.

Definition zvalue (T : tables) : term -> env zv -> zres :=
  value zv zerr z_of_lit z_pyop z_pyun z_pybuiltin z_pycall z_getitem z_getattr ZNan z_is_zde EBroken T.
Definition zpyeval : pexp -> env zv -> zres :=
  pyeval zv zerr z_of_lit z_pyop z_pyun z_pybuiltin z_pycall z_getitem z_getattr ZNan z_is_zde.
Definition zinplace (T : tables) := inplace zv zerr z_of_lit z_pyop T.
