(* Executable model of the dependency manager — data layer.

   References are access paths (container label followed by item/attribute
   keys), the data store is an alias-free forest of dictionaries with integer
   leaves, tasks are expression tasks (ExprTask), function tasks (an action is
   modelled by the list of writes it performs, each an expression) and linear
   knobs (LinearKnob, with its prev_value).  Manager.set_value, run_tasks,
   in-place operators, load, mk_fun/gen_fun and fault injection (the k-th
   container write of an update raises) are mirrored statement by statement.

   Definitions only. *)
From Coq Require Import List Bool Arith ZArith NArith Lia.
From XD Require Import lib.ListAux lib.Toposort model.Manager.
Import ListNotations.
Open Scope Z_scope.

Definition path := list N.

Fixpoint path_eqb (a b : path) : bool :=
  match a, b with
  | [], [] => true
  | x :: s, y :: t => N.eqb x y && path_eqb s t
  | _, _ => false
  end.

(* ---- the store -------------------------------------------------------------- *)
Inductive node :=
| Leaf (z : Z)
| Fun (two : bool)             (* a function object: the sum of the integer members of a container (Fun false), or of its
                                  first two members only (Fun true); which function sits at a location is part of the data *)
| Dict (kids : list (N * node)).

Fixpoint nget (n : node) (p : path) : option node :=
  match p with
  | [] => Some n
  | k :: r => match n with
              | Dict kids => match aget N.eqb k kids with Some c => nget c r | None => None end
              | _ => None
              end
  end.

(* owner[key] = v / setattr(owner, key, v): creates the last key when absent;
   a missing or non-container intermediate is an error *)
Fixpoint nset (n : node) (p : path) (v : node) : option node :=
  match p with
  | [] => Some v
  | k :: r =>
      match n with
      | Dict kids =>
          match r with
          | [] => Some (Dict (aset N.eqb k v kids))
          | _ => match aget N.eqb k kids with
                 | Some c => match nset c r v with
                             | Some c' => Some (Dict (aset N.eqb k c' kids))
                             | None => None
                             end
                 | None => None
                 end
          end
      | _ => None
      end
  end.

(* ---- expressions -------------------------------------------------------------- *)
Inductive binop := BAdd | BSub | BMul | BMod | BFdiv.     (* %, // : Python's floor semantics on ints = Z.modulo, Z.div;
                                                             the harness generates non-zero constant divisors only *)

Inductive proj := PReal | PImag | PNum | PDen.

(* on Python ints: x.real = x.numerator = x, x.imag = 0, x.denominator = 1 *)
Definition proj_val (k : proj) (x : Z) : Z :=
  match k with PReal | PNum => x | PImag => 0 | PDen => 1 end.

Notation FunSum := (Fun false).

Inductive expr :=
| EConst (z : Z)
| ERef (p : path)
| EBin (o : binop) (a b : expr)
| ECallSum (f : path) (arg : path)      (* f(arg) where the store holds FunSum at f *)
| ECallSum2 (f : path) (arg : path)     (* f(arg) for a function that reads only the FIRST TWO members of the container arg:
                                           the container may then hold the target of the definition itself (an ancestor of
                                           the target is read as one value) without the definition reading its own target *)
| EProj (k : proj) (a : expr).          (* an attribute of an expression's VALUE: (a).real, .imag, .numerator, .denominator —
                                           an AttrRef whose owner is an expression node, not a container *)

Definition bin (o : binop) (x y : Z) : Z :=
  match o with BAdd => x + y | BSub => x - y | BMul => x * y | BMod => x mod y | BFdiv => x / y end.

Fixpoint sum_leaves (kids : list (N * node)) : option Z :=
  match kids with
  | [] => Some 0
  | (_, Leaf z) :: r => option_map (Z.add z) (sum_leaves r)
  | _ => None
  end.

Fixpoint eval (st : node) (e : expr) : option node :=
  match e with
  | EConst z => Some (Leaf z)
  | ERef p => nget st p
  | EBin o a b =>
      match eval st a, eval st b with
      | Some (Leaf x), Some (Leaf y) => Some (Leaf (bin o x y))
      | _, _ => None
      end
  | ECallSum f a =>
      match nget st f, nget st a with
      | Some (Fun false), Some (Dict kids) => option_map Leaf (sum_leaves kids)
      | Some (Fun true), Some (Dict (k1 :: k2 :: _)) => option_map Leaf (sum_leaves [k1; k2])
      | _, _ => None
      end
  | ECallSum2 f a =>
      match nget st f, nget st a with
      | Some (Fun _), Some (Dict (k1 :: k2 :: _)) => option_map Leaf (sum_leaves [k1; k2])
      | _, _ => None
      end
  | EProj k a =>
      match eval st a with
      | Some (Leaf x) => Some (Leaf (proj_val k x))
      | _ => None
      end
  end.

(* the locations an expression reads *)
Fixpoint reads (e : expr) : list path :=
  match e with
  | EConst _ => []
  | ERef p => [p]
  | EBin _ a b => reads a ++ reads b
  | ECallSum f a => [f; a]
  | ECallSum2 f a => [f; a]
  | EProj _ a => reads a
  end.

(* MutableRef._get_dependencies: the reference and its enclosing containers
   below the top-level one, i.e. every prefix of length >= 2 *)
Fixpoint prefixes_from (pre : path) (rest : path) : list path :=
  match rest with
  | [] => []
  | k :: r => (pre ++ [k]) :: prefixes_from (pre ++ [k]) r
  end.

Definition deps_of (p : path) : list path :=
  match p with
  | [] => []
  | l :: rest => prefixes_from [l] rest
  end.

Definition pmem (p : path) (l : list path) : bool := mem path_eqb p l.

Definition union (a b : list path) : list path :=
  fold_left (fun acc p => if pmem p acc then acc else acc ++ [p]) b a.

Definition edeps (e : expr) : list path :=
  fold_left (fun acc p => union acc (deps_of p)) (reads e) [].

(* ---- tasks ---------------------------------------------------------------------- *)
Inductive action :=
| AExpr (e : expr)                               (* ExprTask: taskid = target *)
| AFun (writes : list (path * expr))             (* FunctionTask whose action performs these writes *)
| AKnob (src : path) (wts : list (Z * path)).    (* LinearKnob(source, weights, targets) *)

Definition dtask := @task path action.
Definition dmgr := @mgr path action.

Record dstate := mkD {
  d_st : node;                          (* the containers *)
  d_prev : list (path * Z);             (* LinearKnob.prev_value by task id *)
  d_fault : option nat                  (* Some k: the k-th next container write raises *)
}.

(* one container write, with fault injection *)
Definition dwrite (s : dstate) (p : path) (v : node) : res dstate :=
  match d_fault s with
  | Some O => Err EFault
  | _ =>
      let f := match d_fault s with Some (S k) => Some k | other => other end in
      match nset (d_st s) p v with
      | Some st' => Ok (mkD st' (d_prev s) f)
      | None => Err EKey
      end
  end.

Fixpoint do_writes (s : dstate) (ws : list (path * expr)) : dstate * option merr :=
  match ws with
  | [] => (s, None)
  | (p, e) :: r =>
      match eval (d_st s) e with
      | None => (s, Some EType)
      | Some v => match dwrite s p v with
                  | Ok s' => do_writes s' r
                  | Err er => (s, Some er)
                  end
      end
  end.

Fixpoint knob_writes (s : dstate) (delta : Z) (wts : list (Z * path)) : dstate * option merr :=
  match wts with
  | [] => (s, None)
  | (w, t) :: r =>
      match nget (d_st s) t with
      | Some (Leaf x) => match dwrite s t (Leaf (x + w * delta)) with
                         | Ok s' => knob_writes s' delta r
                         | Err er => (s, Some er)
                         end
      | _ => (s, Some EType)
      end
  end.

(* task.run() *)
Definition exec (t : dtask) (s : dstate) : dstate * option merr :=
  match t_act t with
  | AExpr e => do_writes s [(t_id t, e)]
  | AFun ws => do_writes s ws
  | AKnob src wts =>
      match nget (d_st s) src, aget path_eqb (t_id t) (d_prev s) with
      | Some (Leaf value), Some prev =>
          let '(s', er) := knob_writes s (value - prev) wts in
          match er with
          | Some e => (s', Some e)          (* prev_value not advanced *)
          | None => (mkD (d_st s') (aset path_eqb (t_id t) value (d_prev s')) (d_fault s'), None)
          end
      | _, _ => (s, Some EType)
      end
  end.

(* run_tasks: stops at the first exception; returns the ids that ran to completion *)
Fixpoint run_tasks (ts : list dtask) (s : dstate) : dstate * list path * option merr :=
  match ts with
  | [] => (s, [], None)
  | t :: r =>
      match exec t s with
      | (s', Some e) => (s', [], Some e)
      | (s', None) => let '(s'', tr, er) := run_tasks r s' in (s'', t_id t :: tr, er)
      end
  end.

(* ---- operations of a history -------------------------------------------------------- *)
Inductive vsrc :=
| SPlain (v : node)
| SExpr (e : expr) (dep_order tar_order : list path).   (* iteration orders of the new task's sets *)

Inductive mop :=
| MSet (r : path) (v : vsrc) (sd_order : list path) (start_order : list path)
        (* ref[...] = value ; sd_order: iteration order of ref._get_dependencies();
           start_order: iteration order of the start set in find_taskids *)
| MInPlace (r : path) (o : binop) (k : Z) (dep_order tar_order sd_order start_order : list path)
| MRegister (t : dtask)                  (* manager.register(FunctionTask/LinearKnob) *)
| MUnregister (tid : path)
| MLoad (ts : list dtask) (overwrite : bool)
| MFreeze | MUnfreeze | MRefresh | MVerify | MCleanup
| MArmFault (k : nat)
| MDisarm
| MGenFun (args : list (path * node)) (sd_order start_order : list path).
        (* g = manager.gen_fun(name, **{arg_i: ref_i}); g(values...): the generated function is
           executed on the plain containers; sd_order: iteration order of the start set built
           from the arguments' _get_dependencies(); start_order as for MSet *)

Record outcome := mkOut { o_err : option merr; o_trace : list path }.

Definition mk_expr_task (r : path) (e : expr) (dep_order tar_order : list path) : dtask :=
  mkTask r tar_order dep_order (AExpr e).

Definition is_task (tid : path) (m : dmgr) : bool :=
  match aget path_eqb tid (m_tasks m) with Some _ => true | None => false end.

Definition task_expr (tid : path) (m : dmgr) : option expr :=
  match aget path_eqb tid (m_tasks m) with
  | Some t => match t_act t with AExpr e => Some e | _ => None end
  | None => None
  end.

(* Manager.set_value *)
Definition set_value (m : dmgr) (s : dstate) (r : path) (v : vsrc) (sd_order start_order : list path)
  : dmgr * dstate * outcome :=
  (* if ref in self.tasks: self.unregister(ref) *)
  match (if is_task r m then unregister path_eqb r m else Ok m) with
  | Err e => (m, s, mkOut (Some e) [])
  | Ok m1 =>
      (* if isinstance(value, BaseRef): self.register(ExprTask(ref, value)); value = value._get_value() *)
      let step2 : res (dmgr * option node) :=
        match v with
        | SPlain x => Ok (m1, Some x)
        | SExpr e dord tord =>
            match register path_eqb (mk_expr_task r e dord tord) m1 with
            | Err er => Err er
            | Ok m2 => Ok (m2, eval (d_st s) e)
            end
        end in
      match step2 with
      | Err e => (m1, s, mkOut (Some e) [])
      | Ok (m2, None) => (m2, s, mkOut (Some EType) [])
      | Ok (m2, Some x) =>
          (* ref._set_value(value) *)
          match dwrite s r x with
          | Err e => (m2, s, mkOut (Some e) [])
          | Ok s1 =>
              (* self.run_tasks(self.find_tasks(ref._get_dependencies())) *)
              match find_tasks path_eqb m2 sd_order start_order with
              | Err e => (m2, s1, mkOut (Some e) [])
              | Ok (ts, m3) =>
                  let '(s2, tr, er) := run_tasks ts s1 in (m3, s2, mkOut er tr)
              end
          end
      end
  end.

(* Manager.mk_fun: start = union of the arguments' _get_dependencies(); the listed tasks are
   find_tasks(start).  The source text is "ref_i = arg_i" for every argument, then one line
   "target = expr" per task. *)
Definition args_start (args : list path) : list path :=
  fold_left (fun acc p => union acc (deps_of p)) args [].

Definition mk_fun (m : dmgr) (args : list path) (sd_order start_order : list path) : res (list dtask * dmgr) :=
  if same_set path_eqb sd_order (args_start args) then find_tasks path_eqb m sd_order start_order
  else Err EOracle.

(* executing the generated function on the plain containers *)
Fixpoint arg_writes (s : dstate) (args : list (path * node)) : dstate * option merr :=
  match args with
  | [] => (s, None)
  | (p, v) :: rest => match dwrite s p v with
                      | Ok s' => arg_writes s' rest
                      | Err e => (s, Some e)
                      end
  end.

Definition exec_fun (tl : list dtask) (args : list (path * node)) (s : dstate) : dstate * list path * option merr :=
  match arg_writes s args with
  | (s1, Some e) => (s1, [], Some e)
  | (s1, None) => run_tasks tl s1
  end.

Definition step (m : dmgr) (s : dstate) (o : mop) : dmgr * dstate * outcome :=
  match o with
  | MSet r v sd so => set_value m s r v sd so
  | MInPlace r o k dord tord sd so =>
      (* tmp = ref.__iop__(k): old expression (op) k, or old value (op) k; then ref[...] = tmp *)
      match task_expr r m with
      | Some e => set_value m s r (SExpr (EBin o e (EConst k)) dord tord) sd so
      | None =>
          match nget (d_st s) r with
          | Some (Leaf x) => set_value m s r (SPlain (Leaf (bin o x k))) sd so
          | _ => (m, s, mkOut (Some EType) [])
          end
      end
  | MRegister t =>
      match register path_eqb t m with
      | Err e => (m, s, mkOut (Some e) [])
      | Ok m' =>
          (* LinearKnob.__init__ reads the source value *)
          match t_act t with
          | AKnob src _ =>
              match nget (d_st s) src with
              | Some (Leaf x) => (m', mkD (d_st s) (aset path_eqb (t_id t) x (d_prev s)) (d_fault s), mkOut None [])
              | _ => (m', s, mkOut None [])
              end
          | _ => (m', s, mkOut None [])
          end
      end
  | MUnregister tid =>
      match unregister path_eqb tid m with
      | Err e => (m, s, mkOut (Some e) [])
      | Ok m' => (m', s, mkOut None [])
      end
  | MLoad ts overwrite =>
      (fix go (ts : list dtask) (m : dmgr) : dmgr * dstate * outcome :=
         match ts with
         | [] => (m, s, mkOut None [])
         | t :: rest =>
             if is_task (t_id t) m then
               if overwrite then
                 match unregister path_eqb (t_id t) m with
                 | Err e => (m, s, mkOut (Some e) [])
                 | Ok m1 => match register path_eqb t m1 with
                            | Err e => (m1, s, mkOut (Some e) [])
                            | Ok m2 => go rest m2
                            end
                 end
               else go rest m
             else match register path_eqb t m with
                  | Err e => (m, s, mkOut (Some e) [])
                  | Ok m2 => go rest m2
                  end
         end) ts m
  | MFreeze => (set_frozen true m, s, mkOut None [])
  | MUnfreeze => (set_frozen false m, s, mkOut None [])
  | MRefresh => match refresh path_eqb m with
                | Err e => (m, s, mkOut (Some e) [])
                | Ok m' => (m', s, mkOut None [])
                end
  | MVerify => match verify path_eqb m with
               | Err e => (cleanup m, s, mkOut (Some e) [])
               | Ok m' => (m', s, mkOut None [])
               end
  | MCleanup => (cleanup m, s, mkOut None [])
  | MArmFault k => (m, mkD (d_st s) (d_prev s) (Some k), mkOut None [])
  | MDisarm => (m, mkD (d_st s) (d_prev s) None, mkOut None [])
  | MGenFun args sd so =>
      match mk_fun m (map fst args) sd so with
      | Err e => (m, s, mkOut (Some e) [])
      | Ok (tl, m') => let '(s', tr, er) := exec_fun tl args s in (m', s', mkOut er tr)
      end
  end.

Fixpoint run_hist (m : dmgr) (s : dstate) (ops : list mop) : list (dmgr * dstate * outcome) :=
  match ops with
  | [] => []
  | o :: rest => let '(m', s', out) := step m s o in (m', s', out) :: run_hist m' s' rest
  end.
