(* Exact-arithmetic model of the algebra of C16 (MathComp matrices over a real
   field): interpretation of the expression ASTs regenerated from
   optimize.py / matrixutils.py (coq/gen/GenOpt.v) and the objects the
   theorems talk about.  Definitions only. *)
From Coq Require Import String ZArith.
From mathcomp Require Import all_ssreflect all_algebra.
From XD Require Import model.OptExpr.
Set Implicit Arguments.
Unset Strict Implicit.
Unset Printing Implicit Defensive.
Import GRing.Theory Num.Theory.
Local Open Scope ring_scope.

(* ---- element-wise formulas ------------------------------------------------------ *)
Section Scalar.
  Variable R : realFieldType.

  Definition znum (z : Z) : R :=
    match z with
    | Z0 => 0
    | Zpos p => (Pos.to_nat p)%:R
    | Zneg p => - (Pos.to_nat p)%:R
    end.

  (* env: value of a named array at the current index; fenv: the other formulas
     of the class (self.<f>); dot: np.dot of two named arrays at the current column *)
  Fixpoint aeval (env : string -> R) (fenv : string -> R -> R) (dot : string -> string -> R) (e : aexpr) : R :=
    match e with
    | AVar v => env v
    | ANum z => znum z
    | AFirst v => env (v ++ "[0]")%string
    | AAdd a b => aeval env fenv dot a + aeval env fenv dot b
    | ASub a b => aeval env fenv dot a - aeval env fenv dot b
    | AMul a b => aeval env fenv dot a * aeval env fenv dot b
    | ADiv a b => aeval env fenv dot a / aeval env fenv dot b
    | AApp f a => fenv f (aeval env fenv dot a)
    | ADot a b => dot a b
    end.

  Definition no_fun : string -> R -> R := fun _ x => x.
  Definition no_dot : string -> string -> R := fun _ _ => 0.

  (* environments, by name *)
  Definition env2 (n1 : string) (v1 : R) (n2 : string) (v2 : R) : string -> R :=
    fun v => if String.eqb v n1 then v1 else if String.eqb v n2 then v2 else 0.

  Definition env_rescale (x lo hi s0 s1 : R) : string -> R :=
    fun v => if String.eqb v "x" then x else if String.eqb v "lo" then lo else if String.eqb v "hi" then hi
             else if String.eqb v "s0" then s0 else if String.eqb v "s1" then s1 else 0.

  (* the element update of _x_to_knobs / _knobs_to_x (weight is never None: Vary sets 1.0) *)
  Definition weight_apply (c : weight_code) (elem w : R) : R :=
    aeval (env2 "elem" elem (wc_guard c) w) no_fun no_dot (wc_update c).

  (* masking rules of SVD.lstsq, applied in order to one element, starting from zeros_like *)
  Definition cmp_eval (op : cmpop) (a b : R) : bool :=
    match op with CLt => a < b | CLe => a <= b | CGt => b < a | CGe => b <= a end.

  Definition mask_env (si s0 rc : R) : string -> R :=
    fun v => if String.eqb v "s" then si else if String.eqb v "s[0]" then s0
             else if String.eqb v "rcond" then rc else 0.

  Definition mask_step (si s0 : R) (rcond : option R) (acc : R) (mk : masked_assign) : R :=
    let rc := if rcond is Some r then r else 0 in
    let env := mask_env si s0 rc in
    let guard_ok := match ma_guard mk with
                    | None => true
                    | Some g => String.eqb g "rcond" && (if rcond is Some _ then true else false)
                    end in
    if guard_ok && cmp_eval (ma_op mk) (aeval env no_fun no_dot (ma_lhs mk)) (aeval env no_fun no_dot (ma_rhs mk))
    then aeval env no_fun no_dot (ma_value mk) else acc.

  Definition sinv_elem (masks : list masked_assign) (si s0 : R) (rcond : option R) : R :=
    foldl (mask_step si s0 rcond) 0 masks.
End Scalar.

(* the shapes the model is written for *)
Definition expected_formula : mexpr :=
  MMat (MTr (MV "Vh")) (MMat (MDiag (MV "s_inv")) (MMat (MTr (MV "U")) (MV "b"))).
Definition expected_slices : list slicing :=
  [:: mk_slice "U" "U" 1 "sing_val_cutoff"; mk_slice "Vh" "Vh" 0 "sing_val_cutoff"; mk_slice "s" "s" 0 "sing_val_cutoff"].
Definition expected_defaults : list (string * string) :=
  [:: ("rcond", "rcond"); ("sing_val_cutoff", "sing_val_cutoff")]%string.

(* ---- SVD.lstsq ---------------------------------------------------------------------- *)
Section Lstsq.
  Variables (R : realFieldType) (m n k' : nat).
  Local Notation k := k'.+1.
  Variables (U : 'M[R]_(m, k)) (Vh : 'M[R]_(k, n)) (s : 'rV[R]_k).
  Variable masks : list masked_assign.        (* lq_masks of the extracted code *)
  Variable rcond : option R.
  Variable cutoff : nat.                      (* sing_val_cutoff: the slices [:cutoff] *)

  Definition s_first : R := s 0 ord0.

  (* the singular values retained by the slicing and by the two masking rules *)
  Definition keep (i : 'I_k) : bool :=
    [&& (i < cutoff)%N, 0 < s 0 i & (if rcond is Some rc then ~~ (s 0 i < rc * s_first) else true)].

  (* s_inv as the code computes it (entries beyond the slice do not exist: 0) *)
  Definition s_inv : 'rV[R]_k :=
    \row_i (if (i < cutoff)%N then sinv_elem masks (s 0 i) s_first rcond else 0).

  (* x = Vh.T @ (np.diag(s_inv) @ (U.T @ b)) *)
  Definition lstsq_x (b : 'cV[R]_m) : 'cV[R]_n := Vh^T *m (diag_mx s_inv *m (U^T *m b)).

  (* the system restricted to the retained singular values *)
  Definition s_keep : 'rV[R]_k := \row_i (if keep i then s 0 i else 0).
  Definition A_keep : 'M[R]_(m, n) := U *m diag_mx s_keep *m Vh.
End Lstsq.

Definition normsq (R : realFieldType) (p : nat) (v : 'cV[R]_p) : R := (v^T *m v) 0 0.

(* ---- affine problems, views --------------------------------------------------------- *)
Section Affine.
  Variables (R : realFieldType) (m n : nat).
  Variables (A : 'M[R]_(m, n)) (t : 'cV[R]_m).

  Definition affine (x : 'cV[R]_n) : 'cV[R]_m := A *m x - t.

  (* forward differences of a vector function with per-column steps h *)
  Definition fd_jac (col : aexpr) (f : 'cV[R]_n -> 'cV[R]_m) (x : 'cV[R]_n) (h : 'cV[R]_n) : 'M[R]_(m, n) :=
    \matrix_(i, j)
      aeval (fun v => if String.eqb v "f(x)" then f (x + h j 0 *: delta_mx j 0) i 0
                      else if String.eqb v "f0" then f x i 0
                      else if String.eqb v "steps" then h j 0 else 0) (@no_fun R) (@no_dot R) col.

  Definition sumsq (v : 'cV[R]_m) : R := \sum_i v i 0 ^+ 2.
End Affine.

(* ---- the Jacobian solver as a function of the call's own arguments ------------------- *)
(* One JacobianSolver.step iteration away from limits and without bisection.  The only
   state carried between calls is the current point and the Jacobian cache of the
   Broyden update; rcond, sing_val_cutoff and broyden are parameters of the call. *)
Section SolverSteps.
  Variables (R : realFieldType) (m n : nat).

  Record call_args := mk_call { ca_rcond : option R; ca_cutoff : option nat; ca_broyden : bool }.

  Record sstate := mk_sstate {
    st_x : 'cV[R]_n;
    st_cache : option ('M[R]_(m, n) * 'cV[R]_n * 'cV[R]_m) }.    (* _last_jac, _last_jac_x, _last_y *)

  Variable f : 'cV[R]_n -> 'cV[R]_m.                 (* the merit function *)
  Variable h : 'cV[R]_n.                             (* finite-difference steps *)
  Variable col : aexpr.                              (* the extracted forward-difference column (fd_column) *)
  (* SVD(jac).lstsq(y, rcond=..., sing_val_cutoff=...): decomposition and solution, as a
     function of the call's arguments, the Jacobian and the right-hand side *)
  Variable lst : call_args -> 'M[R]_(m, n) -> 'cV[R]_m -> 'cV[R]_n.

  (* jac = last + outer(dy - last @ dx, dx) / dot(dx, dx) *)
  Definition broyden_update (Jl : 'M[R]_(m, n)) (xl : 'cV[R]_n) (yl : 'cV[R]_m) (x : 'cV[R]_n) (y : 'cV[R]_m) :=
    let dx := x - xl in
    let dy := y - yl in
    Jl + ((dx^T *m dx) 0 0)^-1 *: ((dy - Jl *m dx) *m dx^T).

  Definition step_jac (a : call_args) (st : sstate) : 'M[R]_(m, n) :=
    match ca_broyden a, st_cache st with
    | true, Some (Jl, xl, yl) => broyden_update Jl xl yl (st_x st) (f (st_x st))
    | _, _ => fd_jac col f (st_x st) h
    end.

  Definition solver_step (a : call_args) (st : sstate) : sstate :=
    let x := st_x st in
    let y := f x in
    let J := step_jac a st in
    mk_sstate (x - lst a J y) (Some (J, x, y)).

  Definition run_calls (calls : seq call_args) (st : sstate) : sstate :=
    foldl (fun s a => solver_step a s) st calls.
End SolverSteps.
