(* Types of the tables that tools/py2v/gen_refs.py regenerates from
   xdeps/refs.py (coq/gen/GenRefs.v) -- DESIGN 3.1.  Data only.

   Everything here is a *description of the source text*: which class a
   dunder builds and with which arguments, which Python operator a
   _get_value applies, which fields a _get_dependencies descends, the tuple
   a __reduce__ returns.  The interpreters of model/Refs.v give these
   descriptions their meaning; the obligations of props/C04,C05,C12 re-check
   them on every run. *)
From Coq Require Import List ZArith NArith Bool.
From XD Require Import model.RefSyntax.
Import ListNotations.

(* Python's binary operators (operator module names) *)
Inductive binop :=
| OAdd | OSub | OMul | OMatmul | OTruediv | OFloordiv | OMod | OPow
| OAnd | OOr | OXor | OLt | OLe | OEq | ONe | OGe | OGt | ORshift | OLshift.

Inductive unop := UNeg | UPos | UInvert.

(* function objects a BuiltinRef may hold *)
Inductive bfun := FDivmod | FRound | FTrunc | FFloor | FCeil | FAbs.

(* how a method of BaseRef that builds a binary node is reached:
   __op__ (forward), __rop__ (reflected), or a plain method (_eq, _neq) *)
Inductive dkind := DFwd | DRefl | DMeth.

(* an argument of a constructor call inside a dunder *)
Inductive argsel := ASelf | AOther.

(* instance attributes of the reference classes *)
Inductive field :=
| FOwner | FKey | FManager | FLhs | FRhs | FArg | FOp | FParams
| FFunc | FArgs | FKwargs.

(* role of a class in the hierarchy (nearest known ancestor, by name) *)
Inductive kind :=
| KBase | KMutable | KRef | KObjectAttr | KAttr | KItem
| KBinOp | KUnaryOp | KLiteral | KBuiltin | KCall | KOther.

(* return KExpr(a, b): class id and the arguments actually passed *)
Record ctor_call := { cc_cls : N; cc_args : list argsel }.

(* return BuiltinRef(self, <fn>, (other,)):  function number (index into
   t_builtin_fns) and the extra parameters *)
Record builtin_call := { bc_fn : N; bc_params : list argsel }.

(* def __round__(self, other=None): if other is None: return A; return B
   be_none_default: the extra parameter exists and defaults to None
   be_if_none     : the call made in the `other is None` branch
   be_default_lit : a non-None default of the extra parameter, if any *)
Record builtin_entry := {
  be_has_param : bool;
  be_default : option lit;          (* Some LNone for `=None`, Some (LInt 0) for `=0` *)
  be_if_none : option builtin_call;
  be_main : builtin_call }.

(* _get_value of a generated BinOpExpr subclass:  a OP b  *)
Record bin_sem := {
  bs_op : binop; bs_left : field; bs_right : field;
  bs_guard : bool;                   (* try/except ZeroDivisionError: return float('nan') *)
  bs_opstr : pystr }.

Record un_sem := { us_op : unop; us_arg : field; us_opstr : pystr }.

(* MutableRef.__iop__: operator and operand order in the "has expression"
   and in the "plain value" branch (true = `x OP other`) *)
Record inplace_entry := {
  ie_expr_op : binop; ie_expr_self_first : bool;
  ie_val_op : binop; ie_val_self_first : bool }.

(* _get_dependencies *)
Inductive dstep :=
| DField (f : field) (guarded : bool)        (* [if isinstance(self.f, BaseRef):] self.f._get_dependencies(out) *)
| DEach (f : field) (guarded : bool)         (* for x in self.f: ... x._get_dependencies(out) *)
| DEachSnd (f : field) (guarded : bool)      (* for name, x in self.f: ... *)
| DAddSelf.                                  (* out.add(self) *)

Inductive dret :=
| ROut                                       (* return out *)
| ROutOrSet                                  (* return out or set() *)
| RCallee (f : field).                       (* return self.f._get_dependencies(out) *)

Record traversal := {
  tr_init : bool;                            (* if out is None: out = set() *)
  tr_steps : list dstep;
  tr_ret : dret }.

(* the accessors of BaseRef / ObjectAttrRef *)
Inductive accessor := AccGetitem | AccGetattr | AccCall.

Record class_info := {
  ci_id : N; ci_name : pystr; ci_kind : kind;
  ci_mro : list N                            (* own id first, then the bases *) }.

Record tables := {
  t_classes : list class_info;
  t_builtin_fns : list (N * bfun);
  t_dunder_bin : list (binop * dkind * ctor_call);
  t_dunder_un : list (unop * ctor_call);
  t_dunder_builtin : list (bfun * builtin_entry);      (* keyed by the dunder: __divmod__ ... __abs__ *)
  t_class_bin : list (N * bin_sem);
  t_class_un : list (N * un_sem);
  t_inplace : list (binop * option inplace_entry);     (* Python's 13 in-place dunders; None = not defined *)
  t_access : list (N * accessor * N);                  (* defining class, accessor, class built *)
  t_deps : list (N * N * traversal);                   (* class, defining class, traversal (MRO-resolved) *)
  t_reduce : list (N * N * list field);                (* class, defining class, fields of the tuple after type(self) *)
  t_cinit : list (N * list (pystr * bool));            (* class: parameters of the __cinit__ chain (name, has default) *)
  t_cinit_assign : list (N * list (field * nat * bool));(* class: field := parameter index; bool = tuple-normalised *)
  t_special_names : list pystr                         (* special_methods: the attribute names __getattr__ refuses to defer *)
}.
