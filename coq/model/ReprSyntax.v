(* Syntax of the tables that tools/py2v/gen_refsrepr.py extracts from
   xdeps/refs.py (coq/gen/GenRefsRepr.v): the f-string of every __repr__ as
   segments, the tuple hashed by every __cinit__, the body of BaseRef.__eq__
   and what the operator dunders build.  Definitions only. *)
From Coq Require Import List NArith.
From XD Require Import model.RefSyntax.
Import ListNotations.

(* instance fields of the reference classes *)
Inductive field :=
| FKey | FOwner | FManager          (* MutableRef: _key _owner _manager *)
| FLhs | FRhs                       (* BinOpExpr *)
| FArg                              (* UnaryOpExpr LiteralExpr BuiltinRef *)
| FOp | FParams                     (* BuiltinRef *)
| FFunc | FArgs | FKwargs.          (* CallRef *)

Inductive conv := CvStr | CvRepr.   (* {x} / {x!s} / str(x)   vs   {x!r} / repr(x) *)

Inductive cond :=
| COpStrIs (s : pystr)              (* self._op_str == s *)
| CIsRef (f : field)                (* isinstance(f, BaseRef) *)
| CStrStarts (f : field) (s : pystr)(* str(f).startswith(s) *)
| COpModuleIs (s : pystr)           (* getattr(self._op, '__module__', None) == s *)
| CNot (c : cond)
| CAnd (a b : cond).

(* elements of a joined list *)
Inductive jpart :=
| JOne (c : conv) (f : field)                   (* conv(f)                           *)
| JEach (c : conv) (f : field)                  (* conv(x) for x in f                *)
| JEachKw (mid : pystr) (c : conv) (f : field). (* f"{k}<mid>{conv v}" for k, v in f *)

Inductive atomseg :=
| ALit (s : pystr)                  (* literal text *)
| ARaw (f : field)                  (* the field itself, which is a str *)
| AConv (c : conv) (f : field)
| AOpStr                            (* the class attribute _op_str *)
| AOpSymbol                         (* OPERATOR_SYMBOLS.get(self._op, self._op.__name__) *)
| AFuncName                         (* self._func.__name__ *)
| AJoin (sep : pystr) (parts : list jpart).

Inductive seg :=
| SAtom (a : atomseg)
| SIf (c : cond) (th el : list atomseg).

(* elements of the tuple hashed in __cinit__ *)
Inductive hfield :=
| HTypeName                         (* type(self).__name__ *)
| HClass                            (* self.__class__ *)
| HField (f : field).

Inductive eqimpl :=
| EqStrStr.                         (* return str(self) == str(other) *)

(* argument order of the node a dunder builds *)
Inductive argorder := OSelfOther | OOtherSelf | OSelf | OOther.
