(* Model of the two MAD-X expression evaluators of xdeps/madxutils.py (C19).

   One interpreter [eval] walks a Lark parse tree bottom-up, left to right (the
   order in which the LALR parser calls an inline transformer) and applies, at
   each node, the callback the *extracted table* (coq/gen/GenMadx.v) binds to
   the node's alias.  The callbacks manipulate the values of an "object
   algebra": the immediate evaluator is the instance over plain Python values,
   the deferred evaluator is the instance over references/expressions of
   xdeps/refs.py ([dv]), whose [value] is then taken.  Python's own arithmetic,
   float(), indexing, attribute access and function calls are parameters.
   Definitions only. *)
From Coq Require Import String List Bool Arith.
From XD Require Import model.MadxSyn.
Import ListNotations.
Open Scope string_scope.

(* ---- results: a value or a raised exception --------------------------------- *)
Inductive res (E A : Type) := Ok (a : A) | Err (e : E).
Arguments Ok {E A}.
Arguments Err {E A}.

Definition bind {E A B} (r : res E A) (f : A -> res E B) : res E B :=
  match r with Ok a => f a | Err e => Err e end.

Definition mapM {E A B} (f : A -> res E B) : list A -> res E (list B) :=
  fix go (l : list A) : res E (list B) :=
    match l with
    | [] => Ok []
    | x :: r => bind (f x) (fun y => bind (go r) (fun ys => Ok (y :: ys)))
    end.

Fixpoint assoc {B} (k : string) (l : list (string * B)) : option B :=
  match l with
  | [] => None
  | (k', v) :: r => if String.eqb k k' then Some v else assoc k r
  end.

Fixpoint mem (k : string) (l : list string) : bool :=
  match l with [] => false | x :: r => String.eqb k x || mem k r end.

(* ---- Python operators --------------------------------------------------------- *)
Inductive pyop2 := OAdd | OSub | OMul | OTruediv | OPow.
Inductive pyop1 := ONeg | OPos.

Definition pyop2_eqb (a b : pyop2) : bool :=
  match a, b with
  | OAdd, OAdd | OSub, OSub | OMul, OMul | OTruediv, OTruediv | OPow, OPow => true
  | _, _ => false
  end.

(* functions of module `operator` (operator.f(a, b) is `a <op> b`) *)
Definition operator_fun2 (name : string) : option pyop2 :=
  if name =? "add" then Some OAdd else if name =? "sub" then Some OSub else
  if name =? "mul" then Some OMul else if name =? "truediv" then Some OTruediv else
  if name =? "pow" then Some OPow else None.
Definition operator_fun1 (name : string) : option pyop1 :=
  if name =? "neg" then Some ONeg else if name =? "pos" then Some OPos else None.

(* operator classes of module `ast` (the operator written in a _get_value body) *)
Definition ast_op2 (name : string) : option pyop2 :=
  if name =? "Add" then Some OAdd else if name =? "Sub" then Some OSub else
  if name =? "Mult" then Some OMul else if name =? "Div" then Some OTruediv else
  if name =? "Pow" then Some OPow else None.
Definition ast_op1 (name : string) : option pyop1 :=
  if name =? "USub" then Some ONeg else if name =? "UAdd" then Some OPos else None.

(* the special method Python calls for `a <op> b` on the left operand, and the
   reflected one it calls on the right operand when the left one is a float *)
Definition dunder2 (op : pyop2) (reflected : bool) : string :=
  match op, reflected with
  | OAdd, false => "__add__" | OAdd, true => "__radd__"
  | OSub, false => "__sub__" | OSub, true => "__rsub__"
  | OMul, false => "__mul__" | OMul, true => "__rmul__"
  | OTruediv, false => "__truediv__" | OTruediv, true => "__rtruediv__"
  | OPow, false => "__pow__" | OPow, true => "__rpow__"
  end.
Definition dunder1 (op : pyop1) : string :=
  match op with ONeg => "__neg__" | OPos => "__pos__" end.

(* ---- object algebras ------------------------------------------------------------ *)
Record algebra (E X : Type) := mk_alg {
  x_op2 : pyop2 -> X -> X -> res E X;        (* a <op> b        *)
  x_op1 : pyop1 -> X -> res E X;             (* <op> a          *)
  x_float : string -> res E X;               (* float(token)    *)
  x_getitem : X -> string -> res E X;        (* o[k]            *)
  x_getattr : X -> string -> res E X;        (* getattr(o, k)   *)
  x_call : X -> list X -> res E X }.         (* f( *args )      *)
Arguments x_op2 {E X}.
Arguments x_op1 {E X}.
Arguments x_float {E X}.
Arguments x_getitem {E X}.
Arguments x_getattr {E X}.
Arguments x_call {E X}.

(* an argument handed to a callback: a token (a str) or an object *)
Inductive carg (X : Type) := ATok (s : string) | AObj (x : X).
Arguments ATok {X}.
Arguments AObj {X}.

Fixpoint objs_of {X} (l : list (carg X)) : option (list X) :=
  match l with
  | [] => Some []
  | AObj x :: r => match objs_of r with Some xs => Some (x :: xs) | None => None end
  | ATok _ :: _ => None
  end.

Section Interp.
  Variables (E X : Type).
  Variable stuck : E.                        (* "outside the model": never produced for the pinned tables *)
  Variable A : algebra E X.
  Variable cbs : list (string * callback).   (* the extracted callback table          *)
  Variable cfg : madx_eval_cfg.
  Variable ctor : list X.                    (* constructor arguments of MadxEval: variables, functions, elements *)
  Variable elem_alias : string.              (* alias of NAME "->" NAME in the grammar in use *)

  Definition self_field (f : string) : res E X :=
    match assoc f (cfg_init_fields cfg) with
    | Some i => match nth_error ctor i with Some x => Ok x | None => Err stuck end
    | None => Err stuck
    end.

  Fixpoint eval_cexpr (params : list (carg X)) (star : list X) (e : cexpr) : res E (carg X) :=
    match e with
    | CParam i => match nth_error params i with Some a => Ok a | None => Err stuck end
    | CSelf f => bind (self_field f) (fun x => Ok (AObj x))
    | CValue e => bind (eval_cexpr params star e)
                    (fun v => match v with ATok s => Ok (ATok s) | AObj _ => Err stuck end)
    | CGetItem o k =>
        bind (eval_cexpr params star o) (fun ov => bind (eval_cexpr params star k) (fun kv =>
          match ov, kv with
          | AObj x, ATok s => bind (x_getitem A x s) (fun y => Ok (AObj y))
          | _, _ => Err stuck
          end))
    | CGetAttr o k =>
        bind (eval_cexpr params star o) (fun ov => bind (eval_cexpr params star k) (fun kv =>
          match ov, kv with
          | AObj x, ATok s => bind (x_getattr A x s) (fun y => Ok (AObj y))
          | _, _ => Err stuck
          end))
    | CCallStar f =>
        bind (eval_cexpr params star f) (fun fv =>
          match fv with
          | AObj x => bind (x_call A x star) (fun y => Ok (AObj y))
          | ATok _ => Err stuck
          end)
    | CTryKey e => eval_cexpr params star e   (* the KeyError is re-raised as another exception *)
    end.

  Definition apply_cb (cb : callback) (args : list (carg X)) : res E X :=
    match cb with
    | CbOperator name =>
        match operator_fun2 name, args with
        | Some op, [AObj a; AObj b] => x_op2 A op a b
        | _, _ => match operator_fun1 name, args with
                  | Some op, [AObj a] => x_op1 A op a
                  | _, _ => Err stuck
                  end
        end
    | CbBuiltin name =>
        if name =? "float" then match args with [ATok s] => x_float A s | _ => Err stuck end
        else Err stuck
    | CbMethod n star body =>
        if cfg_inline_args cfg && Nat.leb n (length args) && (star || Nat.eqb (length args) n) then
          match objs_of (skipn n args) with
          | Some st => bind (eval_cexpr (firstn n args) st body)
                         (fun v => match v with AObj x => Ok x | ATok _ => Err stuck end)
          | None => Err stuck
          end
        else Err stuck
    end.

  Definition node (alias : string) (args : list (carg X)) : res E X :=
    match assoc alias cbs with Some cb => apply_cb cb args | None => Err stuck end.

  (* children first, left to right, then the callback of the node *)
  Fixpoint eval (t : mtree) : res E X :=
    match t with
    | MNumber tok => node "number" [ATok tok]
    | MNeg a => bind (eval a) (fun x => node "neg" [AObj x])
    | MPos a => bind (eval a) (fun x => node "pos" [AObj x])
    | MVar n => node "var" [ATok n]
    | MElem e k => node elem_alias [ATok e; ATok k]
    | MCall f args => bind (mapM eval args) (fun xs => node "call" (ATok f :: map AObj xs))
    | MAdd l r => bind (eval l) (fun x => bind (eval r) (fun y => node "add" [AObj x; AObj y]))
    | MSub l r => bind (eval l) (fun x => bind (eval r) (fun y => node "sub" [AObj x; AObj y]))
    | MMul l r => bind (eval l) (fun x => bind (eval r) (fun y => node "mul" [AObj x; AObj y]))
    | MDiv l r => bind (eval l) (fun x => bind (eval r) (fun y => node "div" [AObj x; AObj y]))
    | MPow l r => bind (eval l) (fun x => bind (eval r) (fun y => node "pow" [AObj x; AObj y]))
    end.
End Interp.

(* ---- references and deferred expressions (xdeps/refs.py) ------------------------- *)
Inductive dv (V : Type) :=
| DPlain (v : V)                                   (* not a reference: a plain value        *)
| DRoot (i : nat)                                  (* manager.ref(<i-th container>, label)  *)
| DAcc (cls : string) (o : dv V) (k : string)      (* ItemRef / AttrRef (owner, key)        *)
| DBin (cls : string) (l r : dv V)                 (* a BinOpExpr subclass (lhs, rhs)       *)
| DUn (cls : string) (a : dv V)                    (* a UnaryOpExpr subclass (arg)          *)
| DCallN (cls : string) (f : dv V) (args : list (dv V)).  (* CallRef (func, args, {})       *)
Arguments DPlain {V}.
Arguments DRoot {V}.
Arguments DAcc {V}.
Arguments DBin {V}.
Arguments DUn {V}.
Arguments DCallN {V}.

Definition is_plain {V} (d : dv V) : bool := match d with DPlain _ => true | _ => false end.

(* ---- ordinary Python arithmetic on the transliterated expression ---------------- *)
Inductive pyexpr :=
| PyFloat (tok : string)                     (* float("tok")                          *)
| PyBin (op : pyop2) (l r : pyexpr)          (* (l <op> r)                            *)
| PyUn (op : pyop1) (a : pyexpr)             (* (<op> a)                              *)
| PyVar (n : string)                         (* variables[n]                          *)
| PyElem (attr : bool) (e k : string)        (* elements[e][k]  /  getattr(elements[e], k) *)
| PyCall (f : string) (args : list pyexpr).  (* getattr(functions, f)(args)           *)

Fixpoint py_const (e : pyexpr) : bool :=
  match e with
  | PyFloat _ => true
  | PyBin _ l r => py_const l && py_const r
  | PyUn _ a => py_const a
  | PyVar _ | PyElem _ _ _ | PyCall _ _ => false
  end.


Section World.
  Variables (E V S : Type).
  Variable stuck : E.
  Variable is_zd : E -> bool.                       (* isinstance(e, ZeroDivisionError)      *)
  Variable e_attr : E.                              (* AttributeError of BaseRef.__getattr__ *)
  Variable nan : V.                                 (* float('nan')                          *)
  (* Python arithmetic on plain values, float(str) *)
  Variable p2 : pyop2 -> V -> V -> res E V.
  Variable p1 : pyop1 -> V -> res E V.
  Variable pfloat : string -> res E V.
  (* the containers: their contents are the state [S] *)
  Variable getitem : S -> V -> string -> res E V.
  Variable getattr : S -> V -> string -> res E V.
  Variable pcall : S -> V -> list V -> res E V.
  Variable roots : list V.                          (* variables, functions, elements *)

  (* immediate: MadxEval(variables, functions, elements) *)
  Definition plain_alg (st : S) : algebra E V :=
    mk_alg E V p2 p1 pfloat (getitem st) (getattr st) (pcall st).

  Variable rt : ref_tables.
  Variable special : list string.

  Definition mk_bin (cls : string) (swapped : bool) (self other : dv V) : dv V :=
    if swapped then DBin cls other self else DBin cls self other.

  (* Python's dispatch of `a <op> b`: plain operands compute; a reference on the
     left answers through __op__, a float on the left returns NotImplemented
     and the reference on the right answers through __rop__ *)
  Definition d_op2 (op : pyop2) (a b : dv V) : res E (dv V) :=
    match a, b with
    | DPlain x, DPlain y => bind (p2 op x y) (fun v => Ok (DPlain v))
    | DPlain _, _ =>
        match assoc (dunder2 op true) (rt_dunder_bin rt) with
        | Some (cls, sw) => Ok (mk_bin cls sw b a)
        | None => Err stuck
        end
    | _, _ =>
        match assoc (dunder2 op false) (rt_dunder_bin rt) with
        | Some (cls, sw) => Ok (mk_bin cls sw a b)
        | None => Err stuck
        end
    end.

  Definition d_op1 (op : pyop1) (a : dv V) : res E (dv V) :=
    match a with
    | DPlain x => bind (p1 op x) (fun v => Ok (DPlain v))
    | _ => match assoc (dunder1 op) (rt_dunder_un rt) with
           | Some cls => Ok (DUn cls a)
           | None => Err stuck
           end
    end.

  Definition d_access (dunder : string) (o : dv V) (k : string) : res E (dv V) :=
    match o with
    | DPlain _ => Err stuck      (* the deferred evaluator is only ever given references as containers *)
    | _ => match assoc dunder (rt_access rt) with
           | Some (cls, guarded) => if guarded && mem k special then Err e_attr else Ok (DAcc cls o k)
           | None => Err stuck
           end
    end.

  Definition d_call (f : dv V) (args : list (dv V)) : res E (dv V) :=
    match f with
    | DPlain _ => Err stuck
    | _ => match assoc "__call__" (rt_access rt) with
           | Some (cls, _) => Ok (DCallN cls f args)
           | None => Err stuck
           end
    end.

  (* deferred: MadxEval(vref, fref, eref) *)
  Definition def_alg : algebra E (dv V) :=
    mk_alg E (dv V) d_op2 d_op1 (fun s => bind (pfloat s) (fun v => Ok (DPlain v)))
           (d_access "__getitem__") (d_access "__getattr__") d_call.

  Definition nan_guard (r : res E V) : res E V :=
    match r with Err e => if is_zd e then Ok nan else Err e | Ok v => Ok v end.

  (* _get_value *)
  Fixpoint value (st : S) (d : dv V) : res E V :=
    match d with
    | DPlain v => Ok v
    | DRoot i => match nth_error roots i with Some v => Ok v | None => Err stuck end
    | DAcc cls o k =>
        bind (value st o) (fun ov =>
          match assoc cls (rt_class_access rt) with
          | Some kind => if kind =? "getitem" then getitem st ov k
                         else if kind =? "getattr" then getattr st ov k else Err stuck
          | None => Err stuck
          end)
    | DBin cls l r =>
        bind (value st l) (fun lv => bind (value st r) (fun rv =>
          match assoc cls (rt_class_bin rt) with
          | Some (opn, guarded) =>
              match ast_op2 opn with
              | Some op => if guarded then nan_guard (p2 op lv rv) else p2 op lv rv
              | None => Err stuck
              end
          | None => Err stuck
          end))
    | DUn cls a =>
        bind (value st a) (fun av =>
          match assoc cls (rt_class_un rt) with
          | Some opn => match ast_op1 opn with Some op => p1 op av | None => Err stuck end
          | None => Err stuck
          end)
    | DCallN cls f args =>
        bind (value st f) (fun fv => bind (mapM (value st) args) (fun avs =>
          match assoc cls (rt_class_access rt) with
          | Some kind => if kind =? "call" then pcall st fv avs else Err stuck
          | None => Err stuck
          end))
    end.

  Definition root (i : nat) : res E V :=
    match nth_error roots i with Some v => Ok v | None => Err stuck end.

  (* [guard = true]: a true division with a non-constant operand yields nan
     instead of raising ZeroDivisionError *)
  Fixpoint py_eval (guard : bool) (st : S) (e : pyexpr) : res E V :=
    match e with
    | PyFloat tok => pfloat tok
    | PyBin op l r =>
        bind (py_eval guard st l) (fun lv => bind (py_eval guard st r) (fun rv =>
          if guard && pyop2_eqb op OTruediv && negb (py_const l && py_const r)
          then nan_guard (p2 op lv rv) else p2 op lv rv))
    | PyUn op a => bind (py_eval guard st a) (fun av => p1 op av)
    | PyVar n => bind (root 0) (fun vs => getitem st vs n)
    | PyElem false e k => bind (root 2) (fun es => bind (getitem st es e) (fun o => getitem st o k))
    | PyElem true e k => bind (root 2) (fun es => bind (getitem st es e) (fun o => getattr st o k))
    | PyCall f args =>
        bind (root 1) (fun fs => bind (getattr st fs f) (fun fv =>
          bind (mapM (py_eval guard st) args) (fun avs => pcall st fv avs)))
    end.

  (* '^' and '**' are Python's '**'; everything else keeps its spelling *)
  Fixpoint translit (attr : bool) (t : mtree) : pyexpr :=
    match t with
    | MNumber tok => PyFloat tok
    | MNeg a => PyUn ONeg (translit attr a)
    | MPos a => PyUn OPos (translit attr a)
    | MVar n => PyVar n
    | MElem e k => PyElem attr e k
    | MCall f args => PyCall f (map (translit attr) args)
    | MAdd l r => PyBin OAdd (translit attr l) (translit attr r)
    | MSub l r => PyBin OSub (translit attr l) (translit attr r)
    | MMul l r => PyBin OMul (translit attr l) (translit attr r)
    | MDiv l r => PyBin OTruediv (translit attr l) (translit attr r)
    | MPow l r => PyBin OPow (translit attr l) (translit attr r)
    end.
End World.

Fixpoint is_const (t : mtree) : bool :=
  match t with
  | MNumber _ => true
  | MNeg a | MPos a => is_const a
  | MVar _ | MElem _ _ | MCall _ _ => false
  | MAdd l r | MSub l r | MMul l r | MDiv l r | MPow l r => is_const l && is_const r
  end.

(* names on which BaseRef.__getattr__ refuses to build a reference: function
   names always, attribute names of elements in attribute mode *)
Fixpoint names_ok (special : list string) (attr : bool) (t : mtree) : bool :=
  match t with
  | MNumber _ | MVar _ => true
  | MNeg a | MPos a => names_ok special attr a
  | MElem _ k => negb (attr && mem k special)
  | MCall f args => negb (mem f special) && forallb (names_ok special attr) args
  | MAdd l r | MSub l r | MMul l r | MDiv l r | MPow l r => names_ok special attr l && names_ok special attr r
  end.

(* ---- fully parenthesised concrete syntax and the grammar -------------------------- *)
Inductive blit := LPlus | LMinus | LStar | LSlash | LCaret | LStarStar.   (* operators as written *)
Inductive ulit := ULMinus | ULPlus.
Definition blit_str (l : blit) : string :=
  match l with LPlus => "+" | LMinus => "-" | LStar => "*" | LSlash => "/" | LCaret => "^" | LStarStar => "**" end.
Definition ulit_str (l : ulit) : string := match l with ULMinus => "-" | ULPlus => "+" end.

Inductive ptree :=
| PNumber (tok : string)
| PName (n : string)
| PArrow (e k : string)                   (* e->k          *)
| PCallS (f : string) (args : list ptree) (* f(a, b, ...)  *)
| PUnary (lit : ulit) (a : ptree)         (* (lit a)       *)
| PBinary (lit : blit) (l r : ptree).     (* (l lit r)     *)

(* shape of an alternative: rule names abstracted *)
Fixpoint sym_shape (s : gsym) : gsym :=
  match s with
  | GRule _ => GRule ""
  | GTerm n => GTerm n
  | GLit l => GLit l
  | GStar l => GStar (map sym_shape l)
  end.

Fixpoint gsym_eqb (a b : gsym) : bool :=
  match a, b with
  | GRule x, GRule y | GTerm x, GTerm y | GLit x, GLit y => String.eqb x y
  | GStar x, GStar y =>
      (fix go (l1 l2 : list gsym) : bool :=
         match l1, l2 with
         | [], [] => true
         | u :: r1, v :: r2 => gsym_eqb u v && go r1 r2
         | _, _ => false
         end) x y
  | _, _ => false
  end.

Fixpoint shape_eqb (a b : list gsym) : bool :=
  match a, b with
  | [], [] => true
  | u :: r1, v :: r2 => gsym_eqb u v && shape_eqb r1 r2
  | _, _ => false
  end.

(* aliases of all alternatives with the given shape *)
Definition aliases_of_shape (g : grammar) (shape : list gsym) : list (option string) :=
  flat_map (fun r => flat_map (fun a => if shape_eqb (map sym_shape (ga_syms a)) shape then [ga_alias a] else [])
                              (gr_alts r)) (g_rules g).

Definition alias_of_shape (g : grammar) (shape : list gsym) : option string :=
  match aliases_of_shape g shape with
  | [Some a] => Some a
  | _ => None
  end.

Definition shape_bin (lit : string) := [GRule ""; GLit lit; GRule ""].
Definition shape_un (lit : string) := [GLit lit; GRule ""].
Definition shape_arrow := [GTerm "NAME"; GLit "->"; GTerm "NAME"].
Definition shape_call := [GTerm "NAME"; GLit "("; GRule ""; GStar [GLit ","; GRule ""]; GLit ")"].
Definition shape_number := [GTerm "NUMBER"].
Definition shape_name := [GTerm "NAME"].
Definition shape_paren := [GLit "("; GRule ""; GLit ")"].

Definition bin_of_alias (a : string) : option (mtree -> mtree -> mtree) :=
  if a =? "add" then Some MAdd else if a =? "sub" then Some MSub else if a =? "mul" then Some MMul else
  if a =? "div" then Some MDiv else if a =? "pow" then Some MPow else None.
Definition un_of_alias (a : string) : option (mtree -> mtree) :=
  if a =? "neg" then Some MNeg else if a =? "pos" then Some MPos else None.

Definition omap {A B} (f : A -> option B) : list A -> option (list B) :=
  fix go (l : list A) : option (list B) :=
    match l with
    | [] => Some []
    | x :: r => match f x, go r with Some y, Some ys => Some (y :: ys) | _, _ => None end
    end.

(* the tree Lark labels a fully parenthesised expression with, read off the
   grammar: the alias of the alternative with the written operator *)
Fixpoint parse_paren (g : grammar) (elem_alias : string) (p : ptree) : option mtree :=
  match p with
  | PNumber tok => match alias_of_shape g shape_number with
                   | Some a => if a =? "number" then Some (MNumber tok) else None | None => None end
  | PName n => match alias_of_shape g shape_name with
               | Some a => if a =? "var" then Some (MVar n) else None | None => None end
  | PArrow e k => match alias_of_shape g shape_arrow with
                  | Some a => if a =? elem_alias then Some (MElem e k) else None | None => None end
  | PCallS f args => match alias_of_shape g shape_call, omap (parse_paren g elem_alias) args with
                     | Some a, Some ts => if (a =? "call") && negb (Nat.eqb (length ts) 0) then Some (MCall f ts) else None
                     | _, _ => None end
  | PUnary lit a => match alias_of_shape g (shape_un (ulit_str lit)), parse_paren g elem_alias a with
                    | Some al, Some t => match un_of_alias al with Some c => Some (c t) | None => None end
                    | _, _ => None end
  | PBinary lit l r => match alias_of_shape g (shape_bin (blit_str lit)), parse_paren g elem_alias l, parse_paren g elem_alias r with
                       | Some al, Some tl, Some tr => match bin_of_alias al with Some c => Some (c tl tr) | None => None end
                       | _, _, _ => None end
  end.

(* the Python expression a fully parenthesised MAD-X expression is read as:
   same spelling, '^' written '**' *)
Definition py_binop_of_lit (lit : blit) : pyop2 :=
  match lit with LPlus => OAdd | LMinus => OSub | LStar => OMul | LSlash => OTruediv | LCaret | LStarStar => OPow end.
Definition py_unop_of_lit (lit : ulit) : pyop1 := match lit with ULMinus => ONeg | ULPlus => OPos end.

Fixpoint to_python (attr : bool) (p : ptree) : option pyexpr :=
  match p with
  | PNumber tok => Some (PyFloat tok)
  | PName n => Some (PyVar n)
  | PArrow e k => Some (PyElem attr e k)
  | PCallS f args => match omap (to_python attr) args with Some es => Some (PyCall f es) | None => None end
  | PUnary lit a => match to_python attr a with
                    | Some e => Some (PyUn (py_unop_of_lit lit) e) | None => None end
  | PBinary lit l r => match to_python attr l, to_python attr r with
                       | Some el, Some er => Some (PyBin (py_binop_of_lit lit) el er) | _, _ => None end
  end.

(* ---- the pinned tables the theorems are proved for -------------------------------- *)
Definition expected_callbacks : list (string * callback) :=
  [("add", CbOperator "add"); ("sub", CbOperator "sub"); ("mul", CbOperator "mul");
   ("div", CbOperator "truediv"); ("neg", CbOperator "neg"); ("pos", CbOperator "pos");
   ("pow", CbOperator "pow"); ("number", CbBuiltin "float");
   ("call", CbMethod 1 true (CCallStar (CGetAttr (CSelf "functions") (CParam 0))));
   ("getitem", CbMethod 2 false (CGetItem (CGetItem (CSelf "elements") (CValue (CParam 0))) (CValue (CParam 1))));
   ("getattr", CbMethod 2 false (CGetAttr (CGetItem (CSelf "elements") (CParam 0)) (CParam 1)));
   ("var", CbMethod 1 false (CTryKey (CGetItem (CSelf "variables") (CValue (CParam 0)))))].

(* the same table with the tokens of the attribute-mode callback unwrapped like
   those of the item-mode one (`self.elements[name.value]`, `key.value`): the
   repair proposed in fixes/pending/c19_madx_getattr_token_key.patch; both
   variants have the same meaning in every object algebra *)
Definition expected_callbacks_alt : list (string * callback) :=
  [("add", CbOperator "add"); ("sub", CbOperator "sub"); ("mul", CbOperator "mul");
   ("div", CbOperator "truediv"); ("neg", CbOperator "neg"); ("pos", CbOperator "pos");
   ("pow", CbOperator "pow"); ("number", CbBuiltin "float");
   ("call", CbMethod 1 true (CCallStar (CGetAttr (CSelf "functions") (CParam 0))));
   ("getitem", CbMethod 2 false (CGetItem (CGetItem (CSelf "elements") (CValue (CParam 0))) (CValue (CParam 1))));
   ("getattr", CbMethod 2 false (CGetAttr (CGetItem (CSelf "elements") (CValue (CParam 0))) (CValue (CParam 1))));
   ("var", CbMethod 1 false (CTryKey (CGetItem (CSelf "variables") (CValue (CParam 0)))))].

Definition expected_cfg : madx_eval_cfg :=
  mk_cfg true [("variables", 0); ("functions", 1); ("elements", 2)] "lalr" true
         ("getitem", "getattr") ("get", "attr").

Definition expected_env : madx_env_cfg :=
  mk_envcfg [("_vref", "_variables", "v"); ("_eref", "_elements", "e"); ("_fref", "math", "f")]
            ["_vref"; "_fref"; "_eref"] ["_variables"; "math"; "_elements"].

Definition expected_rt : ref_tables :=
  mk_reftab
   [("__add__", ("AddExpr", false)); ("__radd__", ("AddExpr", true));
    ("__sub__", ("SubExpr", false)); ("__rsub__", ("SubExpr", true));
    ("__mul__", ("MulExpr", false)); ("__rmul__", ("MulExpr", true));
    ("__truediv__", ("TruedivExpr", false)); ("__rtruediv__", ("TruedivExpr", true));
    ("__pow__", ("PowExpr", false)); ("__rpow__", ("PowExpr", true))]
   [("__neg__", "NegExpr"); ("__pos__", "PosExpr")]
   [("__getitem__", ("ItemRef", false)); ("__getattr__", ("AttrRef", true)); ("__call__", ("CallRef", false))]
   [("AddExpr", ("Add", false)); ("SubExpr", ("Sub", false)); ("MulExpr", ("Mult", false));
    ("TruedivExpr", ("Div", true)); ("PowExpr", ("Pow", false))]
   [("NegExpr", "USub"); ("PosExpr", "UAdd")]
   [("ItemRef", "getitem"); ("AttrRef", "getattr"); ("CallRef", "call")]
   true true.

Definition expected_rules (elem : string) : list grule :=
  [mk_grule "start" true
     [mk_galt [GRule "sum"] None;
      mk_galt [GTerm "NAME"; GLit "="; GRule "sum"] (Some "assign_var")];
   mk_grule "sum" true
     [mk_galt [GRule "product"] None;
      mk_galt [GRule "sum"; GLit "+"; GRule "product"] (Some "add");
      mk_galt [GRule "sum"; GLit "-"; GRule "product"] (Some "sub")];
   mk_grule "product" true
     [mk_galt [GRule "power"] None;
      mk_galt [GRule "product"; GLit "*"; GRule "power"] (Some "mul");
      mk_galt [GRule "product"; GLit "/"; GRule "power"] (Some "div")];
   mk_grule "power" true
     [mk_galt [GRule "atom"] None;
      mk_galt [GRule "power"; GLit "^"; GRule "atom"] (Some "pow");
      mk_galt [GRule "power"; GLit "**"; GRule "atom"] (Some "pow")];
   mk_grule "atom" true
     [mk_galt [GTerm "NUMBER"] (Some "number");
      mk_galt [GLit "-"; GRule "atom"] (Some "neg");
      mk_galt [GLit "+"; GRule "atom"] (Some "pos");
      mk_galt [GTerm "NAME"] (Some "var");
      mk_galt [GTerm "NAME"; GLit "->"; GTerm "NAME"] (Some elem);
      mk_galt [GTerm "NAME"; GLit "("; GRule "sum"; GStar [GLit ","; GRule "sum"]; GLit ")"] (Some "call");
      mk_galt [GLit "("; GRule "sum"; GLit ")"] None]].

Definition expected_grammar (elem : string) : grammar :=
  mk_grammar (expected_rules elem) [mk_gterm "NAME" "[A-Za-z_\.][A-Za-z0-9_\.%]*"]
             ["common.NUMBER"; "common.WS_INLINE"] ["WS_INLINE"].

(* MadxEnv: the deferred evaluator is built over references to exactly the
   containers the immediate one reads *)
Definition env_consistent (c : madx_env_cfg) : bool :=
  match omap (fun r => match List.find (fun x => String.eqb (fst (fst x)) r) (env_refs c) with
                       | Some x => Some (snd (fst x)) | None => None end) (env_madexpr c) with
  | Some l => (fix eq (a b : list string) : bool :=
                 match a, b with [], [] => true | x :: r, y :: s => String.eqb x y && eq r s | _, _ => false end)
                l (env_madeval c)
  | None => false
  end.
