(* Executable model of row selection of xdeps.table.Table:
   _get_regexp_indices, _get_row_indices (full dispatch), numpy indexing of the
   columns by the result (_select_rows), Indices.__getitem__, Mask.__getitem__,
   _RowView._make_view / _View.get_indices (the multi-selector path) and
   _RowView.__getitem__;  plus the independent naive specification sel_spec.
   Definitions only; proofs are in proofs/TableSel*.v.

   Oracles:  matches : pattern -> name -> bool   is re.compile(p, IGNORECASE).fullmatch(n);
             ord     : list N -> list N           is the iteration order of the Python set nnlst
                                                  (a permutation of its argument).
   Strings are pre-tokenised by the harness: 'p::c<<k' is (p, Some c, -k); a
   pattern and a row name with the same text are the same token. *)
From Coq Require Import List Bool Arith ZArith NArith Lia.
From XD Require Import lib.ListAux model.Table.
Import ListNotations.
Open Scope Z_scope.

Inductive serr := EKey | EIndex | EType | EValue | EName.
Inductive sres (A : Type) := Ok (a : A) | Err (e : serr).
Arguments Ok {A} a.
Arguments Err {A} e.

Definition sbind {A B} (r : sres A) (f : A -> sres B) : sres B :=
  match r with Ok a => f a | Err e => Err e end.

(* index column + integer-valued columns (in _col_names order) *)
Record stable := mkST { s_idx : list N; s_cols : list (N * list Z) }.

Definition slen (t : stable) : nat := length (s_idx t).

(* one end of a name span  a:b  *)
Inductive endpoint :=
| EpNone
| EpName (nm : N) (cnt : option Z) (off : Z)
| EpInt (i : Z).

Inductive sel :=
| SPos (i : Z)                                   (* rows[3] *)
| SPosList (l : list Z)                          (* rows[[2,0]] *)
| SMask (m : list bool)                          (* rows[[True,False,...]] *)
| SRegex (pat : N) (cnt : option Z) (off : Z)    (* rows['p'], rows['p::c'], rows['p::c<<k'] *)
| SNameList (l : list (N * option Z * Z))        (* rows[['a','b::1']] *)
| SSpan (a b : endpoint)                         (* rows['a':'b'], one end may be missing or a position *)
| SRange (lo hi : option Z) (col : N)            (* rows[lo:hi:'col'] *)
| SSlice (lo hi : option Z)                      (* rows[lo:hi] *)
| SNone.                                         (* rows[None] *)

(* what _get_row_indices returns: a slice (step 1) or an integer array *)
Inductive idx := ISlice (a b : option Z) | IArr (l : list Z).

(* ---- small list functions ------------------------------------------------- *)

Fixpoint fmap_opt {A B} (f : A -> option B) (l : list A) : list B :=
  match l with
  | [] => []
  | x :: t => match f x with Some y => y :: fmap_opt f t | None => fmap_opt f t end
  end.

(* list.sort() on integers *)
Fixpoint zinsert (x : Z) (l : list Z) : list Z :=
  match l with
  | [] => [x]
  | y :: t => if x <=? y then x :: y :: t else y :: zinsert x t
  end.

Fixpoint zsort (l : list Z) : list Z :=
  match l with [] => [] | x :: t => zinsert x (zsort t) end.

(* np.where(mask)[0] : enumerate and keep the true positions *)
Fixpoint where_from {A} (p : A -> bool) (i : nat) (l : list A) : list Z :=
  match l with
  | [] => []
  | x :: t => if p x then Z.of_nat i :: where_from p (S i) t else where_from p (S i) t
  end.

Definition np_where {A} (p : A -> bool) (l : list A) : list Z := where_from p 0 l.

(* Python slice.indices for step 1, then range(start, stop) *)
Definition norm_bound (n b : Z) : Z := if b <? 0 then Z.max (b + n) 0 else Z.min b n.

Definition slice_range (n : nat) (a b : option Z) : list nat :=
  let lo := match a with None => 0 | Some x => norm_bound (Z.of_nat n) x end in
  let hi := match b with None => Z.of_nat n | Some x => norm_bound (Z.of_nat n) x end in
  seq (Z.to_nat lo) (Z.to_nat hi - Z.to_nat lo).

(* numpy integer-array indexing: every entry wraps once, else IndexError *)
Definition wrap1 (n : nat) (i : Z) : option nat :=
  let m := Z.of_nat n in
  if (0 <=? i) && (i <? m) then Some (Z.to_nat i)
  else if (- m <=? i) && (i <? 0) then Some (Z.to_nat (i + m))
  else None.

Fixpoint wrap_all (n : nat) (l : list Z) : option (list nat) :=
  match l with
  | [] => Some []
  | i :: t => match wrap1 n i, wrap_all n t with
              | Some p, Some ps => Some (p :: ps)
              | _, _ => None
              end
  end.

Definition idx_positions (n : nat) (ix : idx) : option (list nat) :=
  match ix with
  | ISlice a b => Some (slice_range n a b)
  | IArr l => wrap_all n l
  end.

Definition take {A} (d : A) (col : list A) (ps : list nat) : list A :=
  map (fun p => nth p col d) ps.

Definition take_table (t : stable) (ps : list nat) : stable :=
  mkST (take 0%N (s_idx t) ps) (map (fun c => (fst c, take 0 (snd c) ps)) (s_cols t)).

(* _select_rows(indices): numpy indexing of every column *)
Definition select_rows (t : stable) (ix : idx) : sres stable :=
  match idx_positions (slen t) ix with
  | Some ps => Ok (take_table t ps)
  | None => Err EIndex
  end.

(* rows[...] is given one selector or a tuple of selectors *)
Inductive query := QOne (s : sel) | QTup (l : list sel).

Section Oracles.
  Variable matches : N -> N -> bool.
  Variable ord : list N -> list N.

  (* _get_regexp_indices *)
  Definition regexp_indices (col : list N) (pat : N) (cnt : option Z) (off : Z) : list Z :=
    let c := make_cache col in
    match (match cnt with Some _ => get_row_cache c pat cnt off | None => None end) with
    | Some i => [i]
    | None =>
        match cnt with
        | None => map (fun i => i + off) (np_where (matches pat) col)
        | Some k =>
            let nnlst := ord (nodup N.eq_dec (filter (matches pat) col)) in
            let iilst := fmap_opt (fun nn => get_row_cache c nn (Some k) 0) nnlst in
            map (fun i => i + off) (zsort iilst)
        end
    end.

  (* _get_row_index on a string: KeyError when absent *)
  Definition name_index (col : list N) (nm : N) (cnt : option Z) (off : Z) : sres Z :=
    match get_row_cache (make_cache col) nm cnt off with
    | Some i => Ok i
    | None => Err EKey
    end.

  Fixpoint name_indices (col : list N) (l : list (N * option Z * Z)) : sres (list Z) :=
    match l with
    | [] => Ok []
    | (nm, cnt, off) :: t =>
        sbind (name_index col nm cnt off) (fun i =>
        sbind (name_indices col t) (fun r => Ok (i :: r)))
    end.

  Definition endpoint_index (col : list N) (e : endpoint) : sres (option Z) :=
    match e with
    | EpNone => Ok None
    | EpName nm cnt off => sbind (name_index col nm cnt off) (fun i => Ok (Some i))
    | EpInt i => Ok (Some i)
    end.

  (* _get_row_indices *)
  Definition row_indices (t : stable) (s : sel) : sres idx :=
    match s with
    | SPos i => Ok (IArr [i])
    | SPosList l => Ok (IArr l)
    | SMask m => Ok (IArr (np_where (fun b : bool => b) m))
    | SRegex p c o => Ok (IArr (regexp_indices (s_idx t) p c o))
    | SNameList l => sbind (name_indices (s_idx t) l) (fun r => Ok (IArr r))
    | SSpan a b =>
        sbind (endpoint_index (s_idx t) a) (fun ia =>
        sbind (endpoint_index (s_idx t) b) (fun ib =>
        Ok (ISlice ia (option_map (fun x => x + 1) ib))))
    | SRange lo hi cn =>
        match aget N.eqb cn (s_cols t) with
        | None => Err EKey
        | Some col =>
            match lo, hi with
            | None, None => Ok (ISlice None None)
            | Some a, None => Ok (IArr (np_where (fun v => a <=? v) col))
            | None, Some b => Ok (IArr (np_where (fun v => v <=? b) col))
            | Some a, Some b => Ok (IArr (np_where (fun v => (a <=? v) && (v <=? b)) col))
            end
        end
    | SSlice lo hi => Ok (ISlice lo hi)
    | SNone => Ok (ISlice None None)
    end.

  (* The views are lazy: an index array that leaves the table raises IndexError
     only when a column is next read through the view.  Every selector reads
     the index column (or len(table)) first, except a value range, which looks
     its column up in the underlying dict before indexing: a missing column
     then wins with KeyError. *)
  Definition pending_error (t : stable) (r : list sel) : serr :=
    match r with
    | SRange _ _ cn :: _ => match aget N.eqb cn (s_cols t) with None => EKey | Some _ => EIndex end
    | _ => EIndex
    end.

  (* _RowView._make_view + _View.get_indices: the current view as a table and
     its absolute positions *)
  Fixpoint make_view (t : stable) (abs : list nat) (ss : list sel) : sres (stable * list nat) :=
    match ss with
    | [] => Ok (t, abs)
    | s :: r =>
        sbind (row_indices t s) (fun ix =>
        match idx_positions (slen t) ix with
        | None => Err (pending_error t r)
        | Some ps => make_view (take_table t ps) (take 0%nat abs ps) r
        end)
    end.

  (* Indices.__getitem__ *)
  Definition indices (t : stable) (q : query) : sres (list Z) :=
    match q with
    | QOne s =>
        sbind (row_indices t s) (fun ix =>
        match ix with
        | ISlice a b => Ok (map Z.of_nat (slice_range (slen t) a b))
        | IArr l => Ok l
        end)
    | QTup ss =>
        sbind (make_view t (seq 0 (slen t)) ss) (fun v => Ok (map Z.of_nat (snd v)))
    end.

  (* _RowView.__getitem__ *)
  Definition rows (t : stable) (q : query) : sres stable :=
    match q with
    | QOne s => sbind (row_indices t s) (select_rows t)
    | QTup _ => sbind (indices t q) (fun l => select_rows t (IArr l))
    end.

  (* Mask.__getitem__ *)
  Definition mask_of (n : nat) (l : list Z) : sres (list bool) :=
    match wrap_all n l with
    | Some ps => Ok (map (fun i => existsb (Nat.eqb i) ps) (seq 0 n))
    | None => Err EIndex
    end.

  Definition mask (t : stable) (q : query) : sres (list bool) :=
    sbind (indices t q) (mask_of (slen t)).

  (* what the harness observes of rows[...]: the selected original positions *)
  Definition rows_positions (t : stable) (q : query) : sres (list nat) :=
    sbind (indices t q) (fun l =>
      match wrap_all (slen t) l with Some ps => Ok ps | None => Err EIndex end).

  (* ---- the specification: documented selector semantics, by naive scans ---- *)

  Definition opt_le_lo (lo : option Z) (v : Z) : bool := match lo with None => true | Some a => a <=? v end.
  Definition opt_le_hi (v : Z) (hi : option Z) : bool := match hi with None => true | Some b => v <=? b end.

  (* row i is the c-th occurrence of its own name *)
  Definition occ_isb (col : list N) (c : Z) (i : nat) : bool :=
    match nth_occurrence col (nth i col 0%N) c with
    | Some j => Nat.eqb j i
    | None => false
    end.

  Definition scan_name (col : list N) (nm : N) (cnt : option Z) (off : Z) : sres Z :=
    match nth_occurrence col nm (match cnt with None => 0 | Some c => c end) with
    | Some i => Ok (Z.of_nat i + off)
    | None => Err EKey
    end.

  Fixpoint scan_names (col : list N) (l : list (N * option Z * Z)) : sres (list Z) :=
    match l with
    | [] => Ok []
    | (nm, cnt, off) :: t =>
        match scan_name col nm cnt off with
        | Err e => Err e
        | Ok i => match scan_names col t with Err e => Err e | Ok r => Ok (i :: r) end
        end
    end.

  Definition scan_endpoint (col : list N) (e : endpoint) : sres (option Z) :=
    match e with
    | EpNone => Ok None
    | EpName nm cnt off => match scan_name col nm cnt off with Ok i => Ok (Some i) | Err e => Err e end
    | EpInt i => Ok (Some i)
    end.

  Definition zpos_filter (n : nat) (p : nat -> bool) : list Z := map Z.of_nat (filter p (seq 0 n)).

  Definition sel_spec (t : stable) (s : sel) : sres (list Z) :=
    let col := s_idx t in
    let n := length col in
    match s with
    | SPos i => Ok [i]
    | SPosList l => Ok l
    | SMask m => Ok (zpos_filter (length m) (fun i => nth i m false))
    | SRegex p c o =>
        Ok (map (fun i => i + o)
               (zpos_filter n (fun i => matches p (nth i col 0%N) &&
                                        match c with None => true | Some k => occ_isb col k i end)))
    | SNameList l => scan_names col l
    | SSpan a b =>
        match scan_endpoint col a with
        | Err e => Err e
        | Ok pa =>
            match scan_endpoint col b with
            | Err e => Err e
            | Ok pb => Ok (zpos_filter n (fun i => opt_le_lo pa (Z.of_nat i) && opt_le_hi (Z.of_nat i) pb))
            end
        end
    | SRange lo hi cn =>
        match aget N.eqb cn (s_cols t) with
        | None => Err EKey
        | Some vals =>
            match lo, hi with
            | None, None => Ok (zpos_filter n (fun _ => true))
            | _, _ => Ok (zpos_filter (length vals) (fun i => opt_le_lo lo (nth i vals 0) && opt_le_hi (nth i vals 0) hi))
            end
        end
    | SSlice lo hi =>
        let a := match lo with None => 0 | Some x => norm_bound (Z.of_nat n) x end in
        let b := match hi with None => Z.of_nat n | Some x => norm_bound (Z.of_nat n) x end in
        Ok (zpos_filter n (fun i => (a <=? Z.of_nat i) && (Z.of_nat i <? b)))
    | SNone => Ok (zpos_filter n (fun _ => true))
    end.

  (* a row name used as a pattern matches only itself (among the names present) *)
  Definition names_plainb (col : list N) : bool :=
    forallb (fun p => forallb (fun m => Bool.eqb (matches p m) (N.eqb p m)) col) col.

  (* the ends of a name span lie inside the table (offsets that leave the
     table are outside the property: numpy/Python would wrap them) *)
  Definition endpoint_okb (col : list N) (e : endpoint) : bool :=
    match scan_endpoint col e with
    | Ok (Some p) => 0 <=? p
    | _ => true
    end.

  Definition is_name (e : endpoint) : bool := match e with EpName _ _ _ => true | _ => false end.

  Definition sel_okb (t : stable) (s : sel) : bool :=
    match s with
    | SSpan a b => (is_name a || is_name b) && endpoint_okb (s_idx t) a && endpoint_okb (s_idx t) b
    | _ => true
    end.

  (* the composition law, specification side: select, then select in the result *)
  Definition rows_then (t : stable) (s1 s2 : sel) : sres stable :=
    sbind (rows t (QOne s1)) (fun t1 => rows t1 (QOne s2)).
End Oracles.

(* ---- histories on ONE table object: selections interleaved with edits of the
   index column.  The model has no state besides the columns (the
   implementation's row-name cache is C07's subject), so a selection after an
   edit is the selection on the edited column. ------------------------------- *)

Inductive hop :=
| HSel (q : query)                                          (* rows[q], rows.indices[q], rows.mask[q] *)
| HSetCell (i : Z) (v : N)                                  (* t[index, i] = v *)
| HSetCellName (nm : N) (cnt : option Z) (off : Z) (v : N)  (* t[index, 'nm::cnt<<off'] = v *)
| HSetIdx (vals : list N).                                  (* t[index] = array, t.index = array *)

Inductive hobs :=
| HViews (r : sres (list nat)) (i : sres (list Z)) (m : sres (list bool))
| HDone
| HFail (e : serr).

Definition set_idx (t : stable) (col : list N) : stable := mkST col (s_cols t).

Section History.
  Variable matches : N -> N -> bool.
  Variable ord : list N -> list N.

  Definition hset_cell (t : stable) (i : Z) (v : N) : stable * hobs :=
    match wrap1 (slen t) i with
    | Some k => (set_idx t (list_set (s_idx t) k v), HDone)
    | None => (t, HFail EIndex)
    end.

  Definition hstep (t : stable) (o : hop) : stable * hobs :=
    match o with
    | HSel q => (t, HViews (rows_positions matches ord t q) (indices matches ord t q) (mask matches ord t q))
    | HSetCell i v => hset_cell t i v
    | HSetCellName nm cnt off v =>
        match name_index (s_idx t) nm cnt off with
        | Ok i => hset_cell t i v
        | Err e => (t, HFail e)
        end
    | HSetIdx vals =>
        if Nat.eqb (length vals) (slen t) then (set_idx t vals, HDone) else (t, HFail EValue)
    end.

  Fixpoint hrun (t : stable) (ops : list hop) : list hobs :=
    match ops with
    | [] => []
    | o :: rest => snd (hstep t o) :: hrun (fst (hstep t o)) rest
    end.

  Definition hfinal (t : stable) (ops : list hop) : stable := fold_left (fun s o => fst (hstep s o)) ops t.

  (* the index column after the edits of a history, by itself: what a reader
     of the history expects the column to be *)
  Definition edit_col (col : list N) (o : hop) : list N :=
    match o with
    | HSel _ => col
    | HSetCell i v => match wrap1 (length col) i with Some k => list_set col k v | None => col end
    | HSetCellName nm cnt off v =>
        match scan_name col nm cnt off with
        | Ok i => match wrap1 (length col) i with Some k => list_set col k v | None => col end
        | Err _ => col
        end
    | HSetIdx vals => if Nat.eqb (length vals) (length col) then vals else col
    end.

  Definition edited (col : list N) (ops : list hop) : list N := fold_left edit_col ops col.
End History.

(* ---- several tables alive in one process, each with its own regex_flags ------
   The matching oracle takes the table's case folding: matches2 true is
   re.fullmatch with IGNORECASE (the default of the constructor), matches2 false
   is case-sensitive matching (regex_flags=0).  A table's selections use its own
   flag, whatever other tables did with the same pattern text before. *)

Definition ftable := (bool * stable)%type.

Section Multi.
  Variable matches2 : bool -> N -> N -> bool.
  Variable ord : list N -> list N.

  Definition fviews (ft : ftable) (q : query) : hobs :=
    HViews (rows_positions (matches2 (fst ft)) ord (snd ft) q)
           (indices (matches2 (fst ft)) ord (snd ft) q)
           (mask (matches2 (fst ft)) ord (snd ft) q).

  (* a step: (which table, query) *)
  Definition mstep (tabs : list ftable) (st : nat * query) : hobs :=
    match nth_error tabs (fst st) with
    | Some ft => fviews ft (snd st)
    | None => HFail EKey
    end.

  Definition mrun (tabs : list ftable) (steps : list (nat * query)) : list hobs := map (mstep tabs) steps.
End Multi.

(* ---- value ranges over an abstract value type ---------------------------------------
   rows[lo:hi:'col'] for a column of any dtype (signed/unsigned integers of any
   width, floats of any width with NaN and infinities, bool, object columns of
   numbers).  What the unchanged code computes (read from _get_row_indices):
       both bounds None          -> slice(None)            (every row)
       only lo                   -> np.where(col >= lo)[0]
       only hi                   -> np.where(col <= hi)[0]
       both                      -> np.where((col >= lo) & (col <= hi))[0]
   i.e. the rows whose value v satisfies lo <= v <= hi under numpy's comparison,
   in table order.  The comparison is the oracle [le] (numpy's <= on a cell and a
   bound: exact on numbers of mixed types, false as soon as a NaN is involved);
   nothing is assumed about it — in particular not that the column is sorted. *)
Section AbstractRange.
  Variable V : Type.
  Variable le : V -> V -> bool.

  Definition range_indices (lo hi : option V) (col : list V) : idx :=
    match lo, hi with
    | None, None => ISlice None None
    | Some a, None => IArr (np_where (fun v => le a v) col)
    | None, Some b => IArr (np_where (fun v => le v b) col)
    | Some a, Some b => IArr (np_where (fun v => le a v && le v b) col)
    end.

  (* rows.indices[lo:hi:'col'] *)
  Definition range_view (lo hi : option V) (col : list V) : list Z :=
    match range_indices lo hi col with
    | ISlice a b => map Z.of_nat (slice_range (length col) a b)
    | IArr l => l
    end.

  (* the specification: a scan *)
  Definition in_range (lo hi : option V) (v : V) : bool :=
    match lo with None => true | Some a => le a v end && match hi with None => true | Some b => le v b end.

  Definition range_spec (lo hi : option V) (col : list V) : list Z :=
    zpos_filter (length col) (fun i => match nth_error col i with Some v => in_range lo hi v | None => false end).
End AbstractRange.

(* the instance used by the case files: values ranked by the harness, None = NaN *)
Definition rank_le (a b : option Z) : bool :=
  match a, b with Some x, Some y => (x <=? y)%Z | _, _ => false end.
