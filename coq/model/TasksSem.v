(* Meaning of the Python statement forms that occur in the bookkeeping methods of
   xdeps/tasks.py (Manager.register, unregister, freeze_tree, unfreeze_tree,
   refresh, find_taskids) and in RefCount (xdeps/refs.py), as state transformers
   over the manager record of model/Manager.v.

   tools/py2v/gen_tasks.py translates the SOURCE of those methods, statement by
   statement, into terms built from these combinators (coq/gen/GenTasks.v,
   regenerated on every run); proofs/TasksSrc.v proves that each translated method
   is the function the hand-written model uses.  The combinators are the trusted
   reading of Python: a defaultdict read creates the entry; a `for` over a dict
   iterates the keys present when the loop starts (the translator refuses bodies
   that mutate the iterated index); exceptions abort the method. *)
From Coq Require Import List Bool Arith Lia.
From XD Require Import lib.ListAux lib.Toposort model.Manager.
Import ListNotations.

Section Sem.
Context {K A : Type}.
Variable eqb : K -> K -> bool.

Notation mgrT := (@mgr K A).
Notation taskT := (@task K A).

(* ---- RefCount methods: self is the state ------------------------------------------------- *)
Definition RC := @refcount K -> res (@refcount K).

(* for kk in other: body kk *)
Fixpoint rc_for (l : list K) (body : K -> RC) : RC :=
  fun self => match l with
              | [] => Ok self
              | x :: r => match body x self with Ok self' => rc_for r body self' | Err e => Err e end
              end.

(* ---- manager methods ------------------------------------------------------------------------ *)
Inductive ix := IRdeps | IRtasks | IDeptasks | ITartasks.

Definition ix_get (i : ix) (m : mgrT) : @index K :=
  match i with IRdeps => m_rdeps m | IRtasks => m_rtasks m | IDeptasks => m_deptasks m | ITartasks => m_tartasks m end.

Definition ix_set (i : ix) (d : @index K) (m : mgrT) : mgrT :=
  match i with
  | IRdeps => mkMgr (m_tasks m) d (m_rtasks m) (m_deptasks m) (m_tartasks m) (m_frozen m)
  | IRtasks => mkMgr (m_tasks m) (m_rdeps m) d (m_deptasks m) (m_tartasks m) (m_frozen m)
  | IDeptasks => mkMgr (m_tasks m) (m_rdeps m) (m_rtasks m) d (m_tartasks m) (m_frozen m)
  | ITartasks => mkMgr (m_tasks m) (m_rdeps m) (m_rtasks m) (m_deptasks m) d (m_frozen m)
  end.

Definition M := mgrT -> res mgrT.

Definition ret : M := fun m => Ok m.

Definition seq (a b : M) : M := fun m => match a m with Ok m' => b m' | Err e => Err e end.

(* if self._tree_frozen: raise ValueError(...) *)
Definition raise_if_frozen : M := fun m => if m_frozen m then Err EFrozen else Ok m.

(* self._tree_frozen = b *)
Definition assign_frozen (b : bool) : M := fun m => Ok (set_frozen b m).

(* for x in <python set or list given as l>: body x *)
Fixpoint for_list (l : list K) (body : K -> M) : M :=
  match l with
  | [] => ret
  | x :: r => seq (body x) (for_list r body)
  end.

(* name = self.I[k]  — a defaultdict read: creates an empty entry when absent; the rest of the
   block sees the entry's RefCount as of now (the translator refuses a rest that mutates it) *)
Definition with_entry (i : ix) (k : K) (rest : @refcount K -> M) : M :=
  fun m => let '(rc, d') := iget eqb k (ix_get i m) in rest rc (ix_set i d' m).

(* for x in self.I[k]: body x *)
Definition for_entry (i : ix) (k : K) (body : K -> M) : M :=
  with_entry i k (fun rc => for_list (rc_keys rc) body).

(* self.I[k].method(args)  — the RefCount method mutates the entry in place *)
Definition entry_call (i : ix) (k : K) (method : RC) : M :=
  with_entry i k (fun rc m => match method rc with
                              | Ok rc' => Ok (ix_set i (aset eqb k rc' (ix_get i m)) m)
                              | Err e => Err e
                              end).

(* if v in self.I[k]: body *)
Definition if_in_entry (i : ix) (k v : K) (body : M) : M :=
  with_entry i k (fun rc => if rc_mem eqb v rc then body else ret).

(* if k in self.I: body      (no entry is created by `in`) *)
Definition if_has_key (i : ix) (k : K) (body : M) : M :=
  fun m => match aget eqb k (ix_get i m) with Some _ => body m | None => Ok m end.

(* del self.I[k] *)
Definition del_key (i : ix) (k : K) : M :=
  fun m => match aget eqb k (ix_get i m) with
           | Some _ => Ok (ix_set i (adrop eqb k (ix_get i m)) m)
           | None => Err EKey
           end.

(* self.I = defaultdict(RefCount) *)
Definition reset_index (i : ix) : M := fun m => Ok (ix_set i [] m).

(* self.tasks[taskid] = task *)
Definition tasks_setitem (tid : K) (t : taskT) : M :=
  fun m => Ok (mkMgr (aset eqb tid t (m_tasks m)) (m_rdeps m) (m_rtasks m) (m_deptasks m) (m_tartasks m) (m_frozen m)).

(* task = self.tasks[taskid]   (KeyError) *)
Definition with_task (tid : K) (rest : taskT -> M) : M :=
  fun m => match aget eqb tid (m_tasks m) with Some t => rest t m | None => Err EKey end.

(* del self.tasks[taskid] *)
Definition tasks_delitem (tid : K) : M :=
  fun m => match aget eqb tid (m_tasks m) with
           | Some _ => Ok (mkMgr (adrop eqb tid (m_tasks m)) (m_rdeps m) (m_rtasks m) (m_deptasks m) (m_tartasks m) (m_frozen m))
           | None => Err EKey
           end.

(* for task in self.tasks.values(): body task    (the body must not change self.tasks' key set;
   register of an existing id rebinds the same key) *)
Fixpoint tasks_loop (l : list (K * taskT)) (body : taskT -> M) : M :=
  match l with
  | [] => ret
  | p :: r => seq (body (snd p)) (tasks_loop r body)
  end.

Definition for_tasks (body : taskT -> M) : M :=
  fun m => tasks_loop (m_tasks m) body m.

(* for dct in self.rdeps, self.rtasks, self.deptasks, self.tartasks: body dct *)
Fixpoint for_indices (l : list ix) (body : ix -> M) : M :=
  match l with
  | [] => ret
  | i :: r => seq (body i) (for_indices r body)
  end.

(* for kk, ss in list(dct.items()): body kk ss     — list(...) is a snapshot taken before the loop *)
Fixpoint items_loop (l : @index K) (body : K -> @refcount K -> M) : M :=
  match l with
  | [] => ret
  | p :: r => seq (body (fst p) (snd p)) (items_loop r body)
  end.

Definition for_items (i : ix) (body : K -> @refcount K -> M) : M :=
  fun m => items_loop (ix_get i m) body m.

(* if len(ss) == 0: body *)
Definition if_empty (ss : @refcount K) (body : M) : M :=
  if Nat.eqb (length ss) 0 then body else ret.

(* ---- find_taskids ------------------------------------------------------------------------------ *)
(* start_tasks = set(); for dep in start_deps: start_tasks.update(self.deptasks[dep]);
   return toposort(self.rtasks, start_tasks)
   A Python set is a duplicate-free list; the order in which toposort iterates it is supplied
   (order) and checked to be a permutation of the set. *)
Definition MS (S : Type) := S -> mgrT -> res (S * mgrT).

Definition set_update_entry (i : ix) (k : K) : MS (list K) :=
  fun acc m => let '(rc, d') := iget eqb k (ix_get i m) in
               Ok (fold_left (add_new eqb) (rc_keys rc) acc, ix_set i d' m).

Fixpoint for_list_acc {S} (l : list K) (body : K -> MS S) : MS S :=
  fun acc m => match l with
               | [] => Ok (acc, m)
               | x :: r => match body x acc m with Ok (acc', m') => for_list_acc r body acc' m' | Err e => Err e end
               end.

Definition call_toposort (i : ix) (start order : list K) (m : mgrT) : res (list K * mgrT) :=
  if same_set eqb order start then
    Ok (toposort eqb (succs eqb (ix_get i m)) (S (graph_size (ix_get i m) + length order)) order, m)
  else Err EOracle.

End Sem.
