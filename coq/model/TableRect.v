(* Executable model of the table-producing API of xdeps.table.Table, at the
   level of shapes: the checked constructor (verify branch of __init__),
   _select_rows, cols[...] / _select_cols, __add__ / _concatenate_table,
   Table.concatenate, __mul__, _copy, _t and column assignment (__setitem__
   with a string key).  A table is its _data dictionary (columns and
   non-column entries, "scalars"), its _col_names list and its _index.
   Cell values are opaque integers; the model is compared with the
   implementation on column lists, per-column lengths and scalar keys.
   A cell stands for whatever one row of the column holds: a number, a string,
   an object, or a whole array (columns of shape (n,k) or (n,2,2) hold one
   vector / matrix per row).  The length of a column is the length of its
   first axis, so the Rect invariant and all theorems are unchanged for such
   columns; that every operation keeps the per-row shape and content is
   checked on the implementation by the runner.
   Definitions only; proofs are in proofs/TableRect.v.

   Name tokens (chosen by the harness): "columns" = 0, "row<i>" = 2i+1,
   "name" = 2, every other name an even number > 2. *)
From Coq Require Import List Bool Arith ZArith NArith Lia.
From XD Require Import lib.ListAux model.Table model.TableSel.
Import ListNotations.

Inductive entry := EArr (l : list Z) | EVal (v : Z).

Definition rdata := list (N * entry).

Record rtable := mkRT { r_data : rdata; r_cols : list N; r_index : N }.

Definition columns_tok : N := 0%N.
Definition row_tok (i : nat) : N := (2 * N.of_nat i + 1)%N.
Definition name_tok : N := 2%N.

Definition memN (x : N) (l : list N) : bool := existsb (N.eqb x) l.

Definition entry_len (d : rdata) (c : N) : nat :=
  match aget N.eqb c d with Some (EArr l) => length l | _ => 0%nat end.

(* __len__ : length of the first listed column *)
Definition rlen (t : rtable) : nat :=
  match r_cols t with [] => 0%nat | c :: _ => entry_len (r_data t) c end.

(* entries of _data that are not listed columns: keys(exclude_columns=True) *)
Definition scalars (t : rtable) : rdata :=
  filter (fun p => negb (memN (fst p) (r_cols t))) (r_data t).

(* ---- the checked constructor -------------------------------------------------- *)

(* for kk in _col_names: vv = data[kk] (KeyError); no dtype -> ValueError *)
Fixpoint first_bad (d : rdata) (cn : list N) : option serr :=
  match cn with
  | [] => None
  | c :: r => match aget N.eqb c d with
              | None => Some EKey
              | Some (EVal _) => Some EValue
              | Some (EArr _) => first_bad d r
              end
  end.

(* len(set(len(_data[cc]) for cc in _col_names)) <= 1 *)
Definition all_same_len (d : rdata) (cn : list N) : bool :=
  match cn with
  | [] => true
  | c :: r => forallb (fun c' => Nat.eqb (entry_len d c') (entry_len d c)) r
  end.

Definition ctor (d : rdata) (cols : option (list N)) (index : N) : sres rtable :=
  let cn := match cols with Some l => l | None => map fst d end in
  match first_bad d cn with
  | Some e => Err e
  | None =>
      if all_same_len d cn then
        if memN index cn then Ok (mkRT d cn index) else Err EValue
      else Err EValue
  end.

(* ---- column-wise updates: for col in cols: data[col] = F(col, data[col]) -------- *)

Fixpoint upd_cols (F : N -> entry -> sres entry) (cols : list N) (d : rdata) : sres rdata :=
  match cols with
  | [] => Ok d
  | c :: r => match aget N.eqb c d with
              | None => Err EKey
              | Some e => sbind (F c e) (fun e' => upd_cols F r (aset N.eqb c e' d))
              end
  end.

(* _select_rows(rows): every listed column indexed by numpy, the rest carried *)
Definition take_entry (ix : idx) (_ : N) (e : entry) : sres entry :=
  match e with
  | EArr l => match idx_positions (length l) ix with
              | Some ps => Ok (EArr (take 0%Z l ps))
              | None => Err EIndex
              end
  | EVal _ => Err EType
  end.

Definition rsel_rows (t : rtable) (ix : idx) : sres rtable :=
  sbind (upd_cols (take_entry ix) (r_cols t) (r_data t)) (fun d => Ok (mkRT d (r_cols t) (r_index t))).

(* _copy(): the checked constructor on a copy of the dictionary *)
Definition copy (t : rtable) : sres rtable := ctor (r_data t) (Some (r_cols t)) (r_index t).

(* __mul__(num): np.concatenate([col] * num) *)
Fixpoint rep {A} (k : nat) (l : list A) : list A :=
  match k with O => [] | S j => l ++ rep j l end.

Definition rep_entry (k : Z) (_ : N) (e : entry) : sres entry :=
  if (k <=? 0)%Z then Err EValue
  else match e with EArr l => Ok (EArr (rep (Z.to_nat k) l)) | EVal _ => Err EValue end.

Definition mul (t : rtable) (k : Z) : sres rtable :=
  sbind (copy t) (fun r =>
  sbind (upd_cols (rep_entry k) (r_cols r) (r_data r)) (fun d => Ok (mkRT d (r_cols r) (r_index r)))).

(* __add__(other): copy, then for col in other._col_names: concatenate *)
Definition cat_entry (u : rdata) (c : N) (e : entry) : sres entry :=
  match aget N.eqb c u with
  | None => Err EKey
  | Some (EArr l2) => match e with EArr l1 => Ok (EArr (l1 ++ l2)) | EVal _ => Err EValue end
  | Some (EVal _) => Err EValue
  end.

Definition add (t u : rtable) : sres rtable :=
  sbind (copy t) (fun r =>
  sbind (upd_cols (cat_entry (r_data u)) (r_cols u) (r_data r)) (fun d => Ok (mkRT d (r_cols r) (r_index r)))).

(* Table.concatenate(tables): common columns, concatenated; cls(data) with the
   default index "name" and every key as a column *)
Fixpoint cat_all (ts : list rtable) (c : N) : sres (list Z) :=
  match ts with
  | [] => Ok []
  | t :: r => match aget N.eqb c (r_data t) with
              | Some (EArr l) => sbind (cat_all r c) (fun l2 => Ok (l ++ l2))
              | Some (EVal _) => Err EValue
              | None => Err EName
              end
  end.

Fixpoint cat_cols (ts : list rtable) (cols : list N) : sres rdata :=
  match cols with
  | [] => Ok []
  | c :: r => sbind (cat_all ts c) (fun l => sbind (cat_cols ts r) (fun d => Ok ((c, EArr l) :: d)))
  end.

Definition concatenate (ts : list rtable) : sres rtable :=
  match ts with
  | [] => Err EIndex
  | t0 :: rest =>
      let common := filter (fun c => forallb (fun t => memN c (r_cols t)) rest) (nodup N.eq_dec (r_cols t0)) in
      sbind (cat_cols ts common) (fun d => ctor d None name_tok)
  end.

(* _t : one column "columns" plus one column per row, each as long as _col_names *)
Definition transpose (t : rtable) : sres rtable :=
  let m := length (r_cols t) in
  let cell := EArr (repeat 0%Z m) in
  ctor ((columns_tok, cell) :: map (fun i => (row_tok i, cell)) (seq 0 (rlen t))) None columns_tok.

(* cols[...] / _select_cols: existing entries by name, or expressions over the
   columns (evaluated element-wise by numpy: one value per row) *)
Inductive colreq := CName (c : N) | CExpr (c : N).

Definition req_name (r : colreq) : N := match r with CName c | CExpr c => c end.

Definition req_entry (t : rtable) (r : colreq) : sres entry :=
  match aget N.eqb (req_name r) (r_data t) with
  | Some e => Ok e
  | None => match r with CName _ => Err EName | CExpr _ => Ok (EArr (repeat 0%Z (rlen t))) end
  end.

Fixpoint req_entries (t : rtable) (l : list colreq) : sres rdata :=
  match l with
  | [] => Ok []
  | r :: rest => sbind (req_entry t r) (fun e => sbind (req_entries t rest) (fun d => Ok ((req_name r, e) :: d)))
  end.

Fixpoint put_all (l : rdata) (d : rdata) : rdata :=
  match l with [] => d | (k, e) :: r => put_all r (aset N.eqb k e d) end.

(* _ColView.__getitem__ lists a column requested twice once (dict.fromkeys: first occurrence kept) *)
Fixpoint dedup_reqs (l : list colreq) : list colreq :=
  match l with
  | [] => []
  | r :: t => r :: filter (fun q => negb (N.eqb (req_name q) (req_name r))) (dedup_reqs t)
  end.

Definition rsel_cols0 (t : rtable) (reqs : list colreq) : sres rtable :=
  (* _ColView.__getitem__ puts the index first when it is not requested *)
  let reqs := if memN (r_index t) (map req_name reqs) then reqs else CName (r_index t) :: reqs in
  (* the entries are written last to first, so that with a repeated key the
     first occurrence is the one kept, as in the source dictionary (a Python
     dict has no repeated keys; the order in which the scalar keys are copied
     is that of a set) *)
  sbind (req_entries t reqs) (fun es =>
  Ok (mkRT (put_all (rev (scalars t)) (put_all (rev es) [])) (map req_name reqs) (r_index t))).

(* cols[...] with the string form 'a b a' or a list: repeated names first dropped *)
Definition rsel_cols (t : rtable) (reqs : list colreq) : sres rtable := rsel_cols0 t (dedup_reqs reqs).

(* table[key] = val *)
Inductive aval := VArr (l : list Z) | VScalar (z : Z).

Definition assign (t : rtable) (key : N) (v : aval) : sres rtable :=
  if memN key (r_cols t) then
    match aget N.eqb key (r_data t) with
    | Some (EArr old) =>
        match v with
        | VScalar z => Ok (mkRT (aset N.eqb key (EArr (map (fun _ => z) old)) (r_data t)) (r_cols t) (r_index t))
        | VArr l =>
            if Nat.eqb (length l) (length old) then Ok (mkRT (aset N.eqb key (EArr l) (r_data t)) (r_cols t) (r_index t))
            else match l with
                 | [z] => Ok (mkRT (aset N.eqb key (EArr (map (fun _ => z) old)) (r_data t)) (r_cols t) (r_index t))
                 | _ => Err EValue
                 end
        end
    | Some (EVal _) => Err EType
    | None => Err EKey
    end
  else
    match v with
    | VScalar z => Ok (mkRT (aset N.eqb key (EVal z) (r_data t)) (r_cols t) (r_index t))
    | VArr l => Ok (mkRT (aset N.eqb key (EArr l) (r_data t))
                         (if Nat.eqb (length l) (rlen t) then r_cols t ++ [key] else r_cols t) (r_index t))
    end.

(* ---- derivation chains ------------------------------------------------------------ *)

Inductive rop :=
| ORows (ix : idx)                 (* cur = cur.rows[...] (selector already resolved, see C08) *)
| OCols (l : list colreq)          (* cur = cur.cols[...] *)
| OAddSelf                         (* cur = cur + cur *)
| OAddRows (ix : idx)              (* cur = cur + cur.rows[...] *)
| OMul (k : Z)                     (* cur = cur * k *)
| OCopy                            (* cur = cur._copy() *)
| OT                               (* cur = cur._t *)
| OConcat (l : list idx)           (* cur = Table.concatenate([cur.rows[i] for i in l]) *)
| OSet (key : N) (v : aval)        (* cur[key] = v : existing column, new column, new scalar, or an existing
                                      scalar entry promoted to a column by an array of len(cur) *)
| ODel (key : N)                   (* del cur[key] : a column or a scalar entry *)
| OStay (o : rop).                 (* the derivation o is made from cur and checked, cur stays the current
                                      table: selections and assignments interleave on ONE source table *)

Fixpoint rows_all (t : rtable) (l : list idx) : sres (list rtable) :=
  match l with
  | [] => Ok []
  | ix :: r => sbind (rsel_rows t ix) (fun a => sbind (rows_all t r) (fun b => Ok (a :: b)))
  end.

(* __delitem__ *)
Definition delete (t : rtable) (key : N) : sres rtable :=
  match aget N.eqb key (r_data t) with
  | None => Err EKey
  | Some _ => Ok (mkRT (adel N.eqb key (r_data t)) (remove N.eq_dec key (r_cols t)) (r_index t))
  end.

Fixpoint rstep (t : rtable) (o : rop) : sres rtable :=
  match o with
  | ORows ix => rsel_rows t ix
  | OCols l => rsel_cols t l
  | OAddSelf => add t t
  | OAddRows ix => sbind (rsel_rows t ix) (add t)
  | OMul k => mul t k
  | OCopy => copy t
  | OT => transpose t
  | OConcat l => sbind (rows_all t l) concatenate
  | OSet key v => assign t key v
  | ODel key => delete t key
  | OStay o' => rstep t o'
  end.

(* a failing operation raises and leaves the current table as it was; a
   derivation under OStay is observed but the current table stays *)
Definition rnext (t : rtable) (o : rop) : rtable :=
  match o with
  | OStay _ => t
  | _ => match rstep t o with Ok t' => t' | Err _ => t end
  end.

Definition rfinal (t : rtable) (ops : list rop) : rtable := fold_left rnext ops t.

(* what is compared with the implementation after every step *)
Definition shape := (list (N * nat) * list N * N)%type.   (* (column, length)*, scalar keys, index *)

Definition shape_of (t : rtable) : shape :=
  (map (fun c => (c, entry_len (r_data t) c)) (r_cols t), map fst (scalars t), r_index t).

Fixpoint rrun (t : rtable) (ops : list rop) : list (sres shape) :=
  match ops with
  | [] => []
  | o :: rest => (match rstep t o with Ok t' => Ok (shape_of t') | Err e => Err e end) :: rrun (rnext t o) rest
  end.

(* ---- the invariant ------------------------------------------------------------------ *)

(* every listed column is present, is an array, and has the common length
   len(table); the index is listed; (strengthening needed for the induction:)
   no column is listed twice *)
Definition Rect (t : rtable) : Prop :=
  NoDup (r_cols t) /\ In (r_index t) (r_cols t) /\
  forall c, In c (r_cols t) -> exists l, aget N.eqb c (r_data t) = Some (EArr l) /\ length l = rlen t.

Definition rectb (t : rtable) : bool :=
  (Nat.eqb (length (nodup N.eq_dec (r_cols t))) (length (r_cols t))) && memN (r_index t) (r_cols t) &&
  forallb (fun c => match aget N.eqb c (r_data t) with Some (EArr l) => Nat.eqb (length l) (rlen t) | _ => false end) (r_cols t).

(* side condition of a column selection: distinct names; a name is a column of
   the table, an expression is not an entry of the table *)
Definition reqs_okb (t : rtable) (l : list colreq) : bool :=
  Nat.eqb (length (nodup N.eq_dec (map req_name l))) (length l) &&
  forallb (fun r => match r with
                    | CName c => memN c (r_cols t)
                    | CExpr c => negb (memN c (map fst (r_data t)))
                    end) l.

(* ... and the index column is not deleted *)
Fixpoint rop_okb (t : rtable) (o : rop) : bool :=
  match o with
  | OCols l => reqs_okb t (dedup_reqs l)      (* after the repeated names are dropped *)
  | ODel key => negb (N.eqb key (r_index t))
  | OStay o' => rop_okb t o'
  | _ => true
  end.

Fixpoint rops_okb (t : rtable) (ops : list rop) : bool :=
  match ops with
  | [] => true
  | o :: rest => rop_okb t o && rops_okb (rnext t o) rest
  end.
