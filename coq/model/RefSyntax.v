(* Shared syntax of references and deferred expressions of xdeps/refs.py.
   One first-order type covers plain Python constants, references and every
   expression node class; the node classes of BinOpExpr/UnaryOpExpr and the
   function object of a BuiltinRef are identified by numbers that index the
   tables regenerated from the source (coq/gen/). Definitions only. *)
From Coq Require Import List ZArith NArith.
Import ListNotations.

Definition pystr := list N.                 (* a Python str as code points *)

(* hashable Python constants: item keys, literal operands, call arguments *)
Inductive lit :=
| LInt (z : Z)
| LBool (b : bool)
| LFloat (tok : N)        (* a float, identified by a token chosen by the harness;
                             its repr / value come from oracles *)
| LStr (s : pystr)
| LNone
| LTup (l : list lit).

Inductive term :=
| TConst (v : lit)                                   (* a plain Python value (not a BaseRef) *)
| TTop (label : pystr) (objattr : bool)              (* Ref / ObjectAttrRef(label) *)
| TItem (owner key : term)                           (* ItemRef(owner, key) *)
| TAttr (owner key : term)                           (* AttrRef(owner, key)  *)
| TBin (cls : N) (lhs rhs : term)                    (* a BinOpExpr subclass  *)
| TUn (cls : N) (arg : term)                         (* a UnaryOpExpr subclass *)
| TLiteral (v : lit)                                 (* LiteralExpr(v) *)
| TBuiltin (op : N) (arg : term) (params : list term)      (* BuiltinRef(arg, op, params) *)
| TCall (func : term) (args : list term) (kwargs : list (pystr * term)). (* CallRef *)

(* a strong induction principle that also gives the hypotheses for the
   nested lists *)
Section TermInd.
  Variable P : term -> Prop.
  Hypothesis Hconst : forall v, P (TConst v).
  Hypothesis Htop : forall l o, P (TTop l o).
  Hypothesis Hitem : forall o k, P o -> P k -> P (TItem o k).
  Hypothesis Hattr : forall o k, P o -> P k -> P (TAttr o k).
  Hypothesis Hbin : forall c l r, P l -> P r -> P (TBin c l r).
  Hypothesis Hun : forall c a, P a -> P (TUn c a).
  Hypothesis Hlit : forall v, P (TLiteral v).
  Hypothesis Hbuiltin : forall f a ps, P a -> Forall P ps -> P (TBuiltin f a ps).
  Hypothesis Hcall : forall f args kw, P f -> Forall P args -> Forall (fun p => P (snd p)) kw -> P (TCall f args kw).

  Fixpoint term_ind' (t : term) : P t :=
    match t with
    | TConst v => Hconst v
    | TTop l o => Htop l o
    | TItem o k => Hitem o k (term_ind' o) (term_ind' k)
    | TAttr o k => Hattr o k (term_ind' o) (term_ind' k)
    | TBin c l r => Hbin c l r (term_ind' l) (term_ind' r)
    | TUn c a => Hun c a (term_ind' a)
    | TLiteral v => Hlit v
    | TBuiltin f a ps =>
        Hbuiltin f a ps (term_ind' a)
          ((fix go (l : list term) : Forall P l :=
              match l with [] => Forall_nil _ | x :: r => Forall_cons _ (term_ind' x) (go r) end) ps)
    | TCall f args kw =>
        Hcall f args kw (term_ind' f)
          ((fix go (l : list term) : Forall P l :=
              match l with [] => Forall_nil _ | x :: r => Forall_cons _ (term_ind' x) (go r) end) args)
          ((fix go (l : list (pystr * term)) : Forall (fun p => P (snd p)) l :=
              match l with [] => Forall_nil _ | x :: r => Forall_cons _ (term_ind' (snd x)) (go r) end) kw)
    end.
End TermInd.

Definition is_ref (t : term) : bool := match t with TConst _ => false | _ => true end.
