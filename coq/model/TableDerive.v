(* Derivations of xdeps.table.Table as far as row-name resolution (C07) is
   concerned: t + t, t + t.rows[...], t * k, t._copy(), t.rows[...],
   t.cols[...], Table.concatenate([...]), t._t produce a NEW table object whose
   row-name cache has not been built (the constructor sets _index_cache = None);
   the derived table replaces the current one in the history.  The index column
   and the integer columns of the derived table are computed here; for _t the
   new index column (the column names of the source as strings) is supplied by
   the harness and the value columns (strings) are dropped: only name
   resolution is observed on a transposed table.
   String columns other than the index are kept among the integer columns, a
   name n as the integer Z.of_N n, so that DRepoint can make one of them the
   index column and back.
   DReindex and DRepoint are not derivations but updates of the same object:
   DRepoint through the assignment of _index (fix 891b97d drops the cache);
   DReindex is an update of the same object through the
   deletion of the index column and its re-creation (assignment of a column
   under the index name); the assignment invalidates the cache because its key
   is the index name, whichever branch of __setitem__ stores the value.
   Definitions only; proofs are in proofs/TableDerive.v. *)
From Coq Require Import List Bool Arith ZArith NArith Lia.
From XD Require Import lib.ListAux model.Table model.TableSel.
Import ListNotations.
Open Scope Z_scope.

Inductive dop :=
| DOp (o : op)                  (* an operation of model/Table.v on the current table *)
| DAddSelf                      (* t = t + t *)
| DAddRows (ix : idx)           (* t = t + t.rows[...] *)
| DMul (k : Z)                  (* t = t * k *)
| DCopy                         (* t = t._copy() *)
| DRows (ix : idx)              (* t = t.rows[...] *)
| DCols (keep : list N)         (* t = t.cols[[...]]  (existing integer columns) *)
| DConcat (l : list idx)        (* t = Table.concatenate([t] + [t.rows[i] for i in l]) *)
| DT (labels : list N)          (* t = t._t ; labels = the column names of t, as row names *)
| DRepoint (c old : N)          (* t._index = '<other column>': the string column c (kept among the value
                                   columns as name tokens) becomes the index column, the former index column
                                   becomes the ordinary column old; same table object, cache dropped *)
| DReindex (vals : list N).     (* the index column is deleted (del t[index] / t.pop(index)) and a column
                                   with the index name is assigned again (item or attribute style): same
                                   table object, new index column, no lookup in between *)

Fixpoint drep {A} (k : nat) (l : list A) : list A :=
  match k with O => [] | S j => l ++ drep j l end.

Definition fresh (idx : list N) (cols : list (N * list Z)) : table := mkTable idx cols None.

Definition take_rows (t : table) (ps : list nat) : list N * list (N * list Z) :=
  (take 0%N (t_idx t) ps, map (fun c => (fst c, take 0 (snd c) ps)) (t_cols t)).

Definition append_rows (t : table) (r : list N * list (N * list Z)) : table :=
  fresh (t_idx t ++ fst r)
        (map (fun c => (fst c, snd c ++ match aget N.eqb (fst c) (snd r) with Some l => l | None => [] end)) (t_cols t)).

Fixpoint all_positions (n : nat) (l : list idx) : option (list (list nat)) :=
  match l with
  | [] => Some []
  | ix :: r => match idx_positions n ix, all_positions n r with
               | Some ps, Some rest => Some (ps :: rest)
               | _, _ => None
               end
  end.

Definition dstep (t : table) (d : dop) : table * result :=
  let n := length (t_idx t) in
  match d with
  | DOp o => step t o
  | DAddSelf => (append_rows t (t_idx t, t_cols t), RUnit)
  | DAddRows ix =>
      match idx_positions n ix with
      | Some ps => (append_rows t (take_rows t ps), RUnit)
      | None => (t, RErr IndexError)
      end
  | DMul k =>
      if k <=? 0 then (t, RErr ValueError)
      else (fresh (drep (Z.to_nat k) (t_idx t)) (map (fun c => (fst c, drep (Z.to_nat k) (snd c))) (t_cols t)), RUnit)
  | DCopy => (fresh (t_idx t) (t_cols t), RUnit)
  | DRows ix =>
      match idx_positions n ix with
      | Some ps => (fresh (fst (take_rows t ps)) (snd (take_rows t ps)), RUnit)
      | None => (t, RErr IndexError)
      end
  | DCols keep =>
      (fresh (t_idx t) (fmap_opt (fun c => option_map (fun l => (c, l)) (aget N.eqb c (t_cols t))) keep), RUnit)
  | DConcat l =>
      match all_positions n l with
      | Some pss => (fold_left (fun acc ps => append_rows acc (take_rows t ps)) pss (fresh (t_idx t) (t_cols t)), RUnit)
      | None => (t, RErr IndexError)
      end
  | DT labels => (fresh labels [], RUnit)
  | DReindex vals => (mkTable vals (t_cols t) None, RUnit)
  | DRepoint c old =>
      match aget N.eqb c (t_cols t) with
      | Some l => (mkTable (map Z.to_N l) (aset N.eqb old (map Z.of_N (t_idx t)) (adel N.eqb c (t_cols t))) None, RUnit)
      | None => (t, RErr KeyError)       (* not generated: the implementation accepts any name *)
      end
  end.

Fixpoint drun (t : table) (ops : list dop) : list result :=
  match ops with
  | [] => []
  | d :: rest => snd (dstep t d) :: drun (fst (dstep t d)) rest
  end.

Definition dfinal (t : table) (ops : list dop) : table := fold_left (fun s d => fst (dstep s d)) ops t.
