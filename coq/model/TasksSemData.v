(* Meaning of the Python statement forms of the DATA-LAYER methods of xdeps/tasks.py
   (Manager.set_value, run_tasks, find_tasks, ExprTask.__init__/run, LinearKnob.run,
   FunctionTask.run) as state transformers over the model of model/ManagerData.v.

   tools/py2v/gen_tasks.py translates the source of those methods into terms over
   these combinators (coq/gen/GenTasksData.v, regenerated on every run);
   proofs/TasksSrcData.v proves the translated methods equal to the hand-written
   model (set_value, run_tasks, exec, find_tasks).

   The state is (manager, containers, ids of the tasks that have run to completion);
   an exception keeps the state reached so far (Python does not roll back), except
   that a failing register / unregister leaves the manager as it was (the graph layer
   returns no partial state — the same simplification as model/Manager.v).
   A Python set is a duplicate-free list whose iteration order is supplied. *)
From Coq Require Import List Bool Arith ZArith NArith.
From XD Require Import lib.ListAux lib.Toposort model.Manager model.ManagerData.
Import ListNotations.

Definition dst := (dmgr * dstate * list path)%type.
Definition DM (A : Type) := dst -> dst * res A.

Definition dret {A} (x : A) : DM A := fun σ => (σ, Ok x).

Definition dbind {A B} (a : DM A) (f : A -> DM B) : DM B :=
  fun σ => match a σ with
           | (σ', Ok x) => f x σ'
           | (σ', Err e) => (σ', Err e)
           end.

Definition dseq {B} (a : DM unit) (b : DM B) : DM B := dbind a (fun _ => b).

(* if <cond>: body *)
Definition d_when (cond : dst -> bool) (body : DM unit) : DM unit :=
  fun σ => if cond σ then body σ else (σ, Ok tt).

(* ref in self.tasks *)
Definition d_in_tasks (r : path) : dst -> bool := fun σ => is_task r (fst (fst σ)).

(* self.unregister(ref) / self.register(task): a call of a (translated) graph-layer method *)
Definition d_call (f : dmgr -> res dmgr) : DM unit :=
  fun σ => let '(m, s, tr) := σ in
           match f m with
           | Ok m' => ((m', s, tr), Ok tt)
           | Err e => (σ, Err e)
           end.

(* if isinstance(value, BaseRef): value := <then-branch>   — the assigned value is either a plain
   value or an expression (with the iteration orders of the new task's two sets) *)
Definition d_if_isref (value : vsrc) (then_ : expr -> list path -> list path -> DM node) : DM node :=
  match value with
  | SPlain x => dret x
  | SExpr e dord tord => then_ e dord tord
  end.

(* expr._get_value() *)
Definition d_get_value (e : expr) : DM node :=
  fun σ => let '(m, s, tr) := σ in
           match eval (d_st s) e with
           | Some x => (σ, Ok x)
           | None => (σ, Err EType)
           end.

(* ref._set_value(value): one container write *)
Definition d_set_value_ref (r : path) (x : node) : DM unit :=
  fun σ => let '(m, s, tr) := σ in
           match dwrite s r x with
           | Ok s' => ((m, s', tr), Ok tt)
           | Err e => (σ, Err e)
           end.

(* [self.tasks[taskid] for taskid in ids] *)
Definition d_lookup_tasks (ids : list path) : DM (list dtask) :=
  fun σ => let '(m, s, tr) := σ in
           match lookup_tasks path_eqb (m_tasks m) ids with
           | Ok l => (σ, Ok l)
           | Err e => (σ, Err e)
           end.

(* a call of a (translated) graph-layer query  mgr -> res (A * mgr) *)
Definition d_query {A} (q : dmgr -> res (A * dmgr)) : DM A :=
  fun σ => let '(m, s, tr) := σ in
           match q m with
           | Ok (x, m') => ((m', s, tr), Ok x)
           | Err e => (σ, Err e)
           end.

(* for task in tasks: task.run()      — a task that ran to completion is recorded *)
Fixpoint d_for_tasks (tasks : list dtask) (run : dtask -> DM unit) : DM unit :=
  match tasks with
  | [] => dret tt
  | t :: r => dbind (run t) (fun _ => dseq (fun σ => let '(m, s, tr) := σ in ((m, s, tr ++ [t_id t]), Ok tt))
                                           (d_for_tasks r run))
  end.

(* for item in items: body item       (`continue` ends the body early: the body's term simply has nothing after it) *)
Fixpoint d_for_each {X} (items : list X) (body : X -> DM unit) : DM unit :=
  match items with
  | [] => dret tt
  | x :: r => dseq (body x) (d_for_each r body)
  end.

(* if <cond>: then_ else: else_ *)
Definition d_ifelse (cond : dst -> bool) (then_ else_ : DM unit) : DM unit :=
  fun σ => if cond σ then then_ σ else else_ σ.

(* ---- mk_fun / gen_fun: the generated function, line by line ---------------------------------------
   "def name(x0, x1, ...):" / "  <ref_i> = x_i" / "  <target> = <expr>"   (str(task) of an ExprTask) *)
Inductive fline :=
| LAssign (target : path) (param : nat)      (* the i-th parameter is stored at the location *)
| LTask (t : dtask).                         (* the printed form of a task *)

(* start = set(); for vref in kwargs.values(): vref._get_dependencies(start)
   MutableRef._get_dependencies(out) adds the reference and its enclosing containers (deps_of) *)
Definition d_deps_into (acc : list path) (vref : path) : list path := union acc (deps_of vref).

Fixpoint assign_lines (i : nat) (refs : list path) : list fline :=
  match refs with [] => [] | r :: rest => LAssign r i :: assign_lines (S i) rest end.

(* exec(fdef, gbl, lcl) and a call of lcl[name] with the values: the body runs top to bottom on the plain containers;
   a line "target = expr" of an ExprTask evaluates and stores; other tasks do not print as statements *)
Fixpoint run_lines (ls : list fline) (values : list node) : DM unit :=
  match ls with
  | [] => dret tt
  | LAssign p i :: r =>
      match nth_error values i with
      | Some v => dseq (d_set_value_ref p v) (run_lines r values)
      | None => fun σ => (σ, Err EType)
      end
  | LTask t :: r =>
      match t_act t with
      | AExpr e => dbind (d_get_value e) (fun v =>
                   dseq (d_set_value_ref (t_id t) v)
                  (dseq (fun σ => let '(m, s, tr) := σ in ((m, s, tr ++ [t_id t]), Ok tt)) (run_lines r values)))
      | _ => fun σ => (σ, Err EType)
      end
  end.

(* ---- LinearKnob.run ------------------------------------------------------------------------- *)
(* self.source._get_value()  (a number) *)
Definition d_get_number (p : path) : DM Z :=
  fun σ => let '(m, s, tr) := σ in
           match nget (d_st s) p with
           | Some (Leaf x) => (σ, Ok x)
           | _ => (σ, Err EType)
           end.

(* self.prev_value *)
Definition d_get_prev (tid : path) : DM Z :=
  fun σ => let '(m, s, tr) := σ in
           match aget path_eqb tid (d_prev s) with
           | Some x => (σ, Ok x)
           | None => (σ, Err EType)
           end.

(* self.prev_value = value *)
Definition d_set_prev (tid : path) (x : Z) : DM unit :=
  fun σ => let '(m, s, tr) := σ in
           ((m, mkD (d_st s) (aset path_eqb tid x (d_prev s)) (d_fault s), tr), Ok tt).

(* for w, t in zip(self.weights, self.targets): body w t *)
Fixpoint d_for_zip (wts : list (Z * path)) (body : Z -> path -> DM unit) : DM unit :=
  match wts with
  | [] => dret tt
  | (w, t) :: r => dseq (body w t) (d_for_zip r body)
  end.

(* ---- FunctionTask.run: return self.action()  — the action is a callable the library knows nothing about;
   the model's function tasks perform a list of writes target := expression ----------------------------- *)
Fixpoint d_call_action (ws : list (path * expr)) : DM unit :=
  match ws with
  | [] => dret tt
  | (p, e) :: r => dbind (d_get_value e) (fun v => dseq (d_set_value_ref p v) (d_call_action r))
  end.
