(* Several tables alive in one process, each with its own separators
   (sep_count, sep_previous, sep_next: constructor arguments, later assignable
   as t._sep_count = ...).  A textual row selector is split by the table that
   receives it, with that table's separators: the split is the oracle
   [split seps text] (= Table._split_name_count_offset of a table whose
   separators are seps; in the case files an explicit finite table computed by
   the harness with the documented grammar).  Everything else is model/Table.v.
   Definitions only; proofs are in proofs/TableMulti.v. *)
From Coq Require Import List Bool Arith ZArith NArith Lia.
From XD Require Import lib.ListAux model.Table.
Import ListNotations.
Open Scope Z_scope.

(* a table with its separators (a token standing for the triple) *)
Record stab := mkStab { m_seps : N; m_tab : table }.

Inductive mop :=
| MOp (o : op)                               (* no textual selector (positions, tuples, column updates, unique) *)
| MGetIndex (raw : N)                        (* rows.get_index(text), table // text *)
| MGetCell (cr : colref) (raw : N)           (* table[col, text] *)
| MSetCellN (raw : N) (v : N)                (* table[index, text] = v *)
| MSetSeps (seps : N) (drops_cache : bool)   (* t._sep_count = .. (drops the cache) / t._sep_previous, t._sep_next = .. *)
| MSetIdxFrom (j : nat).                     (* t[index] = u[index] for another live table u = table j: the VALUES of u's
                                                index column at that moment are copied into t's column (numpy assignment
                                                col[:] = val); the two tables share nothing afterwards *)

Section Multi.
  Variable split : N -> N -> N * option Z * Z.

  Definition tok (seps raw : N) : rowsel :=
    let '(nm, cnt, off) := split seps raw in RStr raw nm cnt off.

  Definition sstep (s : stab) (o : mop) : stab * result :=
    match o with
    | MOp o' => let '(t', r) := step (m_tab s) o' in (mkStab (m_seps s) t', r)
    | MGetIndex raw => let '(t', r) := step (m_tab s) (OGetIndex (tok (m_seps s) raw)) in (mkStab (m_seps s) t', r)
    | MGetCell cr raw => let '(t', r) := step (m_tab s) (OGetCell cr (tok (m_seps s) raw)) in (mkStab (m_seps s) t', r)
    | MSetCellN raw v => let '(t', r) := step (m_tab s) (OSetCellN (tok (m_seps s) raw) v) in (mkStab (m_seps s) t', r)
    | MSetSeps seps d => (mkStab seps (if d then invalidate (m_tab s) else m_tab s), RUnit)
    | MSetIdxFrom _ => (s, RUnit)      (* resolved by [resolve] before it reaches a single table *)
    end.

  (* one table alone *)
  Fixpoint srun (s : stab) (ops : list mop) : list result :=
    match ops with
    | [] => []
    | o :: rest => snd (sstep s o) :: srun (fst (sstep s o)) rest
    end.

  Fixpoint upd {A} (l : list A) (k : nat) (x : A) : list A :=
    match l, k with
    | [], _ => []
    | _ :: t, O => x :: t
    | y :: t, S j => y :: upd t j x
    end.

  (* a cross-table assignment becomes the whole-column assignment of the values
     the other table's index column has now *)
  Definition resolve (tabs : list stab) (o : mop) : mop :=
    match o with
    | MSetIdxFrom j => MOp (OSetIdxCol (match nth_error tabs j with Some sj => t_idx (m_tab sj) | None => [] end))
    | _ => o
    end.

  Definition is_cross (o : mop) : bool := match o with MSetIdxFrom _ => true | _ => false end.

  (* several tables, steps (table number, operation) in any interleaving *)
  Fixpoint mrun_tabs (tabs : list stab) (steps : list (nat * mop)) : list result :=
    match steps with
    | [] => []
    | (k, o0) :: rest =>
        let o := resolve tabs o0 in
        match nth_error tabs k with
        | Some s => snd (sstep s o) :: mrun_tabs (upd tabs k (fst (sstep s o))) rest
        | None => RErr KeyError :: mrun_tabs tabs rest
        end
    end.

  (* the operations / results of an interleaved run that concern table k *)
  Fixpoint ops_of (k : nat) (steps : list (nat * mop)) : list mop :=
    match steps with
    | [] => []
    | (j, o) :: rest => if Nat.eqb j k then o :: ops_of k rest else ops_of k rest
    end.

  Fixpoint results_of {R} (k : nat) (steps : list (nat * mop)) (rs : list R) : list R :=
    match steps, rs with
    | (j, _) :: rest, r :: rs' => if Nat.eqb j k then r :: results_of k rest rs' else results_of k rest rs'
    | _, _ => []
    end.
End Multi.
