(* Token level of the printed expressions of xdeps (C11).

   [show_tokens] interprets the same templates as [show] (gen/GenRefsRepr.v,
   through model/RefsShow.v) with tokens as output alphabet.

   [parse] is a model of what Python's eval does with such a token sequence in
   a namespace [ns] binding the container labels: Python's expression grammar
   restricted to the printed sub-language (parenthesised binary/unary
   operations with Python's precedence of a unary minus against **, negative
   numeric literals, calls of abs/round/divmod/math.floor/ceil/trunc, attribute
   access, subscription, calls with keyword arguments) followed by Python's
   operator dispatch (dunder / reflected dunder, as listed in [py_binops],
   [py_unops], [py_builtins] -- Python's data model, written by hand) into the
   constructors that the dunders of BaseRef build (tables dunder_bin, dunder_un,
   builtin_dunder, dunder_access regenerated from the source).
   Definitions only. *)
From Coq Require Import List Bool Arith ZArith NArith String Ascii.
From XD Require Import model.RefSyntax model.ReprSyntax gen.GenRefsRepr lib.PyStr model.RefsShow.
Import ListNotations.
Open Scope N_scope.

Definition s2p (s : string) : pystr := map N_of_ascii (list_ascii_of_string s).

(* ------------------------------------------------------------------- tokens *)

Inductive token :=
| KName (s : pystr)        (* NAME *)
| KNum (v : lit)           (* NUMBER: a non-negative int or float literal *)
| KStr (s : pystr)         (* STRING, with its decoded contents *)
| KOp (s : pystr).         (* OP *)

Fixpoint lit_eqb (a b : lit) : bool :=
  match a, b with
  | LInt x, LInt y => Z.eqb x y
  | LBool x, LBool y => Bool.eqb x y
  | LFloat x, LFloat y => N.eqb x y
  | LStr x, LStr y => pystr_eqb x y
  | LNone, LNone => true
  | LTup x, LTup y =>
      (fix go (x y : list lit) : bool :=
         match x, y with
         | [], [] => true
         | a :: x', b :: y' => lit_eqb a b && go x' y'
         | _, _ => false
         end) x y
  | _, _ => false
  end.

Definition token_eqb (a b : token) : bool :=
  match a, b with
  | KName x, KName y | KStr x, KStr y | KOp x, KOp y => pystr_eqb x y
  | KNum x, KNum y => lit_eqb x y
  | _, _ => false
  end.

Fixpoint toks_eqb (a b : list token) : bool :=
  match a, b with
  | [], [] => true
  | x :: s, y :: t => token_eqb x y && toks_eqb s t
  | _, _ => false
  end.

Fixpoint toks_prefix (pre s : list token) : bool :=
  match pre, s with
  | [], _ => true
  | x :: p, y :: t => token_eqb x y && toks_prefix p t
  | _ :: _, [] => false
  end.

(* float tokens: 2 * magnitude + sign (convention of the harness) *)
Definition lit_isneg (v : lit) : bool :=
  match v with LInt z => Z.ltb z 0 | LFloat t => N.odd t | _ => false end.
Definition lit_neg (v : lit) : lit :=
  match v with
  | LInt z => LInt (- z)
  | LFloat t => LFloat (if N.odd t then t - 1 else t + 1)
  | _ => v
  end.
Definition lit_abs (v : lit) : lit := if lit_isneg v then lit_neg v else v.
Definition is_num (v : lit) : bool := match v with LInt _ | LFloat _ => true | _ => false end.

(* literal text of a template: names, one-character operators, blanks dropped *)
Definition flush (acc : pystr) : list token := match acc with [] => [] | _ => [KName (rev acc)] end.
Fixpoint lex_go (acc : pystr) (s : pystr) : list token :=
  match s with
  | [] => flush acc
  | c :: r =>
      if is_alpha_ c || is_digit c then lex_go (c :: acc) r
      else flush acc ++ (if c =? 32 then [] else [KOp [c]]) ++ lex_go [] r
  end.
Definition lex_lit (s : pystr) : list token := lex_go [] s.

Fixpoint const_toks (c : conv) (v : lit) : list token :=
  match v with
  | LInt _ | LFloat _ => if lit_isneg v then [KOp (s2p "-"); KNum (lit_abs v)] else [KNum v]
  | LStr s => match c with CvRepr => [KStr s] | CvStr => [KName s] end
  | LBool true => [KName (s2p "True")]
  | LBool false => [KName (s2p "False")]
  | LNone => [KName (s2p "None")]
  | LTup l => KOp (s2p "(") :: join [KOp (s2p ",")] (map (const_toks CvRepr) l)
              ++ (match l with [_] => [KOp (s2p ",")] | _ => [] end) ++ [KOp (s2p ")")]
  end.

Definition token_writer : writer (A := token) :=
  {| w_lit := lex_lit;
     w_name := fun s => [KName s];
     w_opstr := fun s => [KOp s];
     w_fname := fun s => [KName s];
     w_kw := fun s => [KName s];
     w_const := const_toks;
     w_starts := fun text s => toks_prefix (lex_lit s) text |}.

Definition show_tokens (t : term) : list token := show_with token_writer t.

(* ------------------------------------------------- Python's operator dispatch *)

(* operator, dunder, reflected dunder *)
Definition py_binops : list (pystr * pystr * pystr) :=
  map (fun x => (s2p (fst (fst x)), s2p (snd (fst x)), s2p (snd x)))
  [ ("+", "__add__", "__radd__"); ("-", "__sub__", "__rsub__"); ("*", "__mul__", "__rmul__");
    ("@", "__matmul__", "__rmatmul__"); ("/", "__truediv__", "__rtruediv__");
    ("//", "__floordiv__", "__rfloordiv__"); ("%", "__mod__", "__rmod__"); ("**", "__pow__", "__rpow__");
    ("&", "__and__", "__rand__"); ("|", "__or__", "__ror__"); ("^", "__xor__", "__rxor__");
    (">>", "__rshift__", "__rrshift__"); ("<<", "__lshift__", "__rlshift__");
    ("<", "__lt__", "__gt__"); ("<=", "__le__", "__ge__"); (">", "__gt__", "__lt__"); (">=", "__ge__", "__le__") ]%string.

Definition py_unops : list (pystr * pystr) :=
  map (fun x => (s2p (fst x), s2p (snd x))) [ ("-", "__neg__"); ("+", "__pos__"); ("~", "__invert__") ]%string.

(* module, function name, dunder *)
Definition py_builtins : list (pystr * pystr * pystr) :=
  map (fun x => (s2p (fst (fst x)), s2p (snd (fst x)), s2p (snd x)))
  [ ("builtins", "abs", "__abs__"); ("builtins", "round", "__round__"); ("builtins", "divmod", "__divmod__");
    ("math", "floor", "__floor__"); ("math", "ceil", "__ceil__"); ("math", "trunc", "__trunc__") ]%string.

Definition reserved_labels : list pystr := map s2p ["abs"; "round"; "divmod"; "math"]%string.

Fixpoint alookup {V} (k : pystr) (l : list (pystr * V)) : option V :=
  match l with
  | [] => None
  | (k', v) :: r => if pystr_eqb k k' then Some v else alookup k r
  end.

Definition mem_str (k : pystr) (l : list pystr) : bool := existsb (pystr_eqb k) l.

Definition is_eq_op (o : pystr) : bool := pystr_eqb o (s2p "==") || pystr_eqb o (s2p "!=").

(* self.<dunder>(other) *)
Definition call_bin_dunder (d : pystr) (self other : term) : option term :=
  match alookup d (map (fun x => (fst (fst x), (snd (fst x), snd x))) dunder_bin) with
  | Some (cls, OSelfOther) => Some (TBin cls self other)
  | Some (cls, OOtherSelf) => Some (TBin cls other self)
  | _ => None
  end.

(* self.<method>(other) for the plain methods that build a node: _eq, _neq *)
Definition call_method (nm : pystr) (self other : term) : option term :=
  if is_ref self then
    match alookup nm (map (fun x => (fst (fst x), (snd (fst x), snd x))) method_bin) with
    | Some (cls, OSelfOther) => Some (TBin cls self other)
    | _ => None
    end
  else None.

Definition is_method (nm : pystr) : bool := mem_str nm (map (fun x => fst (fst x)) method_bin).

(* lhs <op> rhs *)
Definition build_bin (o : pystr) (l r : term) : option term :=
  if is_eq_op o then
    (* the operators == and != : BaseRef.__eq__ (and the default __ne__) return a
       bool, no expression; the deferred comparisons are built by _eq / _neq *)
    if is_ref l || is_ref r then
      let e := toks_eqb (show_tokens l) (show_tokens r) in
      Some (TConst (LBool (if pystr_eqb o (s2p "==") then e else negb e)))
    else None
  else
    match alookup o (map (fun x => (fst (fst x), (snd (fst x), snd x))) py_binops) with
    | Some (d, rd) =>
        if is_ref l then call_bin_dunder d l r
        else if is_ref r then call_bin_dunder rd r l
        else None
    | None => None
    end.

Definition build_un (o : pystr) (a : term) : option term :=
  if is_ref a then
    match alookup o py_unops with
    | Some d => match alookup d dunder_un with Some cls => Some (TUn cls a) | None => None end
    | None => None
    end
  else None.

(* <module>.<name>(x, p1, ...) *)
Definition build_builtin (m nm : pystr) (args : list term) : option term :=
  match args with
  | x :: ps =>
      if is_ref x then
        match alookup nm (map (fun e => (snd (fst e), (fst (fst e), snd e))) py_builtins) with
        | Some (m', d) =>
            if pystr_eqb m m' then
              match alookup d (map (fun e => (fst (fst (fst e)), (snd (fst (fst e)), snd (fst e), snd e))) builtin_dunder) with
              | Some (f, lo, hi) =>
                  if (lo <=? List.length ps)%nat && (List.length ps <=? hi)%nat then Some (TBuiltin f x ps) else None
              | None => None
              end
            else None
        | None => None
        end
      else None
  | [] => None
  end.

Definition class_of_base (b : term) : N :=
  match b with TTop _ true => cls_ObjectAttrRef | _ => cls_BaseRef end.

Definition access_cls (b : term) (d : pystr) : option N :=
  let find c := alookup d (map (fun e => (snd (fst e), snd e)) (filter (fun e => fst (fst e) =? c) dunder_access)) in
  match find (class_of_base b) with
  | Some k => Some k
  | None => find cls_BaseRef
  end.

(* base.<dunder>(key): __getattr__ / __getitem__ *)
Definition mk_access (b : term) (d : pystr) (key : term) : option term :=
  if is_ref b then
    match access_cls b d with
    | Some k => if k =? cls_ItemRef then Some (TItem b key)
                else if k =? cls_AttrRef then Some (TAttr b key) else None
    | None => None
    end
  else None.

Definition mk_call (b : term) (args : list term) (kw : list (pystr * term)) : option term :=
  if is_ref b then
    match access_cls b (s2p "__call__") with
    | Some k => if k =? cls_CallRef then Some (TCall b args kw) else None
    | None => None
    end
  else None.

(* ------------------------------------------------------------------- parser *)

Definition is_op (t : pystr) (s : string) : bool := pystr_eqb t (s2p s).

Record parsers := {
  pp_operand : list token -> option (term * list token);
  pp_trailers : term -> list token -> option (term * list token);
  pp_args : bool -> list token -> option (list term * list (pystr * term) * list token)
}.

Definition no_parsers : parsers :=
  {| pp_operand := fun _ => None; pp_trailers := fun _ _ => None; pp_args := fun _ _ => None |}.

Section Parse.
  (* the evaluation namespace: container label -> object *)
  Variable ns : pystr -> option term.
  Variable rec : parsers.

  (* expects ")" then continues with the trailers of the built object *)
  Definition close_paren (built : option term) (ts : list token) : option (term * list token) :=
    match built, ts with
    | Some t, KOp c :: r => if is_op c ")" then pp_trailers rec t r else None
    | _, _ => None
    end.

  Definition binary_step (ts : list token) : option (term * list token) :=
    match pp_operand rec ts with
    | Some (l, KOp o :: r) =>
        if is_op o ")" then
          (* a parenthesised operand is the operand itself *)
          if is_ref l then pp_trailers rec l r else Some (l, r)
        else
          match pp_operand rec r with
          | Some (rr, r2) => close_paren (build_bin o l rr) r2
          | None => None
          end
    | _ => None
    end.

  (* after "(" *)
  Definition paren_step (ts : list token) : option (term * list token) :=
    match ts with
    | KOp o :: r =>
        if is_op o "-" then
          match r with
          | KNum v :: KOp o2 :: r2 =>
              if is_op o2 ")" then Some (TConst (lit_neg v), r2)        (* (-3): a constant *)
              else
                match pp_operand rec r2 with
                | Some (rhs, r3) =>
                    if is_op o2 "**"
                    then (* -3 ** x is -(3 ** x) *)
                      close_paren (match build_bin o2 (TConst v) rhs with
                                   | Some pw => build_un o pw | None => None end) r3
                    else close_paren (build_bin o2 (TConst (lit_neg v)) rhs) r3
                | None => None
                end
          | KNum _ :: _ => None
          | _ =>
              match pp_operand rec r with
              | Some (a, r2) => close_paren (build_un o a) r2
              | None => None
              end
          end
        else if is_op o "+" || is_op o "~" then
          match pp_operand rec r with
          | Some (a, r2) => close_paren (build_un o a) r2
          | None => None
          end
        else binary_step ts
    | _ => binary_step ts
    end.

  Definition call_builtin (m nm : pystr) (ts : list token) : option (term * list token) :=
    match pp_args rec false ts with
    | Some (args, [], r) =>
        match build_builtin m nm args with
        | Some t => pp_trailers rec t r
        | None => None
        end
    | _ => None
    end.

  Definition named_step (nm : pystr) (ts : list token) : option (term * list token) :=
    match ts with
    | KOp o :: r =>
        if is_op o "(" && mem_str nm (map (fun e => snd (fst e)) (filter (fun e => pystr_eqb (fst (fst e)) (s2p "builtins")) py_builtins))
        then call_builtin (s2p "builtins") nm r
        else if is_op o "." && pystr_eqb nm (s2p "math") then
          match r with
          | KName f :: KOp o2 :: r2 => if is_op o2 "(" then call_builtin (s2p "math") f r2 else None
          | _ => None
          end
        else match ns nm with Some b => pp_trailers rec b ts | None => None end
    | _ => match ns nm with Some b => pp_trailers rec b ts | None => None end
    end.

  Definition operand_step (ts : list token) : option (term * list token) :=
    match ts with
    | KNum v :: r => Some (TConst v, r)
    | KStr s :: r => Some (TConst (LStr s), r)
    | KOp o :: r =>
        if is_op o "-" then match r with KNum v :: r' => Some (TConst (lit_neg v), r') | _ => None end
        else if is_op o "(" then paren_step r
        else None
    | KName nm :: r => named_step nm r
    | [] => None
    end.

  Definition private_name (n : pystr) : bool := match n with 95 :: _ => true | [] => true | _ => false end.

  Definition trailers_step (b : term) (ts : list token) : option (term * list token) :=
    match ts with
    | KOp o :: r =>
        if is_op o "." then
          match r with
          | KName nm :: r' =>
              if is_method nm then
                (* a method found by normal lookup: only its call with one argument is modelled *)
                match r' with
                | KOp c :: r2 =>
                    if is_op c "(" then
                      match pp_operand rec r2 with
                      | Some (x, KOp c2 :: r3) =>
                          if is_op c2 ")" then
                            match call_method nm b x with Some t => pp_trailers rec t r3 | None => None end
                          else None
                      | _ => None
                      end
                    else None
                | _ => None
                end
              else if private_name nm then None
              else match mk_access b (s2p "__getattr__") (TConst (LStr nm)) with
                   | Some t => pp_trailers rec t r'
                   | None => None
                   end
          | _ => None
          end
        else if is_op o "[" then
          match pp_operand rec r with
          | Some (k, KOp c :: r') =>
              if is_op c "]" then
                match mk_access b (s2p "__getitem__") k with
                | Some t => pp_trailers rec t r'
                | None => None
                end
              else None
          | _ => None
          end
        else if is_op o "(" then
          match r with
          | KOp c :: r' =>
              if is_op c ")" then match mk_call b [] [] with Some t => pp_trailers rec t r' | None => None end
              else match pp_args rec false r with
                   | Some (args, kw, r'') => match mk_call b args kw with Some t => pp_trailers rec t r'' | None => None end
                   | None => None
                   end
          | _ => match pp_args rec false r with
                 | Some (args, kw, r'') => match mk_call b args kw with Some t => pp_trailers rec t r'' | None => None end
                 | None => None
                 end
          end
        else Some (b, ts)
    | _ => Some (b, ts)
    end.

  (* one argument then "," more or ")"; positional arguments may not follow keywords *)
  Definition args_step (kwmode : bool) (ts : list token) : option (list term * list (pystr * term) * list token) :=
    let continue (item : term + (pystr * term)) (rest : list token) :=
        let add res := match res with
                       | Some (a, k, r) => Some (match item with inl x => (x :: a, k, r) | inr p => (a, p :: k, r) end)
                       | None => None
                       end in
        match rest with
        | KOp c :: r2 =>
            if is_op c ")" then add (Some ([], [], r2))
            else if is_op c "," then add (pp_args rec (match item with inl _ => kwmode | inr _ => true end) r2)
            else None
        | _ => None
        end in
    match ts with
    | KName k :: KOp e :: r =>
        if is_op e "=" then
          match pp_operand rec r with Some (v, rest) => continue (inr (k, v)) rest | None => None end
        else if kwmode then None
        else match pp_operand rec ts with Some (v, rest) => continue (inl v) rest | None => None end
    | _ =>
        if kwmode then None
        else match pp_operand rec ts with Some (v, rest) => continue (inl v) rest | None => None end
    end.

  Definition step : parsers :=
    {| pp_operand := operand_step; pp_trailers := trailers_step; pp_args := args_step |}.
End Parse.

Fixpoint P (ns : pystr -> option term) (n : nat) : parsers :=
  match n with O => no_parsers | S n' => step ns (P ns n') end.

(* the whole text is one expression *)
Definition parse (ns : pystr -> option term) (fuel : nat) (ts : list token) : option term :=
  match pp_operand (P ns fuel) ts with
  | Some (t, []) => Some t
  | _ => None
  end.

(* ----------------------------------------------- rebinding of container labels *)

(* what base.<name> builds: ObjectAttrRef turns attribute access into items *)
Definition sm_attr (b : term) (n : pystr) : term :=
  match b with TTop _ true => TItem b (TConst (LStr n)) | _ => TAttr b (TConst (LStr n)) end.

Section Subst.
  Variable ns : pystr -> option term.

  Fixpoint subst (t : term) : term :=
    match t with
    | TConst v => TConst v
    | TTop l oa => match ns l with Some b => b | None => TTop l oa end
    | TItem o k => TItem (subst o) (subst k)
    | TAttr o k => match k with
                   | TConst (LStr n) => sm_attr (subst o) n
                   | _ => TAttr (subst o) (subst k)
                   end
    | TBin c l r => TBin c (subst l) (subst r)
    | TUn c a => TUn c (subst a)
    | TLiteral v => TLiteral v
    | TBuiltin f a ps => TBuiltin f (subst a) (map subst ps)
    | TCall f args kw => TCall (subst f) (map subst args) (map (fun p => (fst p, subst (snd p))) kw)
    end.
End Subst.

(* the namespace of a manager: every label bound to its own container reference *)
Definition id_ns (kind : pystr -> bool) : pystr -> option term := fun l => Some (TTop l (kind l)).

(* references as the API builds them: a label has one kind, and attribute
   access on an ObjectAttrRef container is an item access *)
Definition kinds_okb (kind : pystr -> bool) : term -> bool :=
  fix ok (t : term) : bool :=
    match t with
    | TConst _ | TLiteral _ => true
    | TTop l oa => Bool.eqb oa (kind l)
    | TItem o k => ok o && ok k
    | TAttr o k => ok o && ok k && match o with TTop _ true => false | _ => true end
    | TBin _ l r => ok l && ok r
    | TUn _ a => ok a
    | TBuiltin _ a ps => ok a && forallb ok ps
    | TCall f args kw => ok f && forallb ok args && forallb (fun p => ok (snd p)) kw
    end.

(* ------------------------------------------------- the printed sub-language *)

Definition reflectable_ops : list pystr :=
  map s2p ["+"; "-"; "*"; "@"; "/"; "//"; "%"; "**"; "&"; "|"; "^"; ">>"; "<<"]%string.

Definition num_const (t : term) : bool := match t with TConst v => is_num v | _ => false end.

Definition builtin_okb (f : N) (nparams : nat) : bool :=
  match builtin_fn f with
  | Some (m, nm) =>
      match build_builtin m nm (TTop [] false :: repeat (TConst (LInt 0)) nparams) with
      | Some (TBuiltin f' _ _) => f' =? f
      | _ => false
      end
  | None => false
  end.

Section Wf.
  Variable ns : pystr -> option term.

  (* expressions built from references, numeric constants, every operator,
     abs/round/divmod/math.floor/ceil/trunc and calls through references *)
  Fixpoint wf (t : term) : bool :=
    let operand := fun x : term => match x with TConst v => is_num v | _ => wf x end in
    match t with
    | TConst _ => false
    | TTop l _ => negb (mem_str l reserved_labels) && match ns l with Some b => is_ref b | None => false end
    | TItem o k => wf o && match k with TConst (LStr _) => true | _ => operand k end
    | TAttr o k => wf o && match k with TConst (LStr n) => negb (private_name n) && negb (is_method n) | _ => false end
    | TBin c l r =>
        existsb (N.eqb c) bin_classes && operand l && operand r &&
        match op_str c with
        | Some s => if is_eq_op s then is_ref l        (* built by l._eq(r) / l._neq(r) *)
                    else is_ref l || (is_ref r && mem_str s reflectable_ops)
        | None => false
        end
    | TUn c a => existsb (N.eqb c) un_classes && wf a
    | TLiteral _ => false
    | TBuiltin f a ps => wf a && forallb operand ps && builtin_okb f (List.length ps)
    | TCall f args kw => wf f && forallb operand args && forallb (fun p => operand (snd p)) kw
    end.
End Wf.

Fixpoint tsize (t : term) : nat :=
  match t with
  | TConst _ | TTop _ _ | TLiteral _ => 1
  | TItem o k | TAttr o k => S (tsize o + tsize k)
  | TBin _ l r => S (tsize l + tsize r)
  | TUn _ a => S (tsize a)
  | TBuiltin _ a ps => S (S (tsize a + fold_right (fun x acc => S (tsize x + acc)) 0 ps))%nat
  | TCall f args kw => S (tsize f + fold_right (fun x acc => S (tsize x + acc)) 0 args
                          + fold_right (fun p acc => S (tsize (snd p) + acc)) 0 kw)%nat
  end.

(* ------------------------------------------------ dump / load / copy_expr_from *)

(* an ExprTask: (target, expression) *)
Definition taskdef := (term * term)%type.
Definition dumped := (list token * list token)%type.

Definition same_ref (a b : term) : bool := toks_eqb (show_tokens a) (show_tokens b).   (* eq_impl at token level *)

Definition has_task (m : list taskdef) (t : term) : bool := existsb (fun d => same_ref (fst d) t) m.
Definition unregister (m : list taskdef) (t : term) : list taskdef := filter (fun d => negb (same_ref (fst d) t)) m.

(* Manager.dump: (str(target), str(expr)) of every ExprTask, in dict order *)
Definition dump (m : list taskdef) : list dumped := map (fun d => (show_tokens (fst d), show_tokens (snd d))) m.

(* Manager.load: eval both sides in the namespace, then register (replacing or
   keeping an existing task of the same target) *)
Fixpoint load (ns : pystr -> option term) (fuel : nat) (overwrite : bool) (d : list dumped) (m : list taskdef)
  : option (list taskdef) :=
  match d with
  | [] => Some m
  | (lt, rt) :: rest =>
      match parse ns fuel lt, parse ns fuel rt with
      | Some t, Some e =>
          if has_task m t then
            if overwrite then load ns fuel overwrite rest (unregister m t ++ [(t, e)])
            else load ns fuel overwrite rest m
          else load ns fuel overwrite rest (m ++ [(t, e)])
      | _, _ => None
      end
  end.

(* ---------------------------------------- histories on one target manager *)

(* a manager: its label -> container map and its ExprTasks (dict order) *)
Record mstate := { ms_containers : list (pystr * term); ms_tasks : list taskdef }.

(* namespace used by load(): the containers of the manager *)
Definition ns_of (cs : list (pystr * term)) : pystr -> option term := fun l => alookup l cs.

(* namespace used by copy_expr_from(): a COPY of the containers, with the
   rebound labels overriding *)
Definition ns_with (cs binds : list (pystr * term)) : pystr -> option term :=
  fun l => match alookup l binds with Some t => Some t | None => alookup l cs end.

Inductive mop :=
| MLoad (overwrite : bool) (src : list taskdef)                                (* mgr.load(src.dump(), overwrite=...) *)
| MCopy (overwrite : bool) (sel : list taskdef) (binds : list (pystr * term))  (* mgr.copy_expr_from(src, name, bindings, overwrite) *)
| MAssign (target : term) (value : option term).                               (* ref = expression / plain value *)

(* every operation returns a new state whose container map is the old one *)
Definition mstep (fuel : nat) (st : mstate) (op : mop) : option mstate :=
  let cs := ms_containers st in
  match op with
  | MLoad ow src =>
      match load (ns_of cs) fuel ow (dump src) (ms_tasks st) with
      | Some ts => Some {| ms_containers := cs; ms_tasks := ts |}
      | None => None
      end
  | MCopy ow sel binds =>
      match load (ns_with cs binds) fuel ow (dump sel) (ms_tasks st) with
      | Some ts => Some {| ms_containers := cs; ms_tasks := ts |}
      | None => None
      end
  | MAssign t v =>
      Some {| ms_containers := cs;
              ms_tasks := unregister (ms_tasks st) t ++ (match v with Some e => [(t, e)] | None => [] end) |}
  end.

(* the states after every operation *)
Fixpoint mrun (fuel : nat) (st : mstate) (ops : list mop) : option (list mstate) :=
  match ops with
  | [] => Some []
  | op :: r =>
      match mstep fuel st op with
      | Some st' => match mrun fuel st' r with Some l => Some (st' :: l) | None => None end
      | None => None
      end
  end.

(* ------------------------------- which tasks copy_expr_from takes from a manager *)

(* the container a reference is rooted in: _check_root_owner walks the _owner
   chain up to the container ref and compares by IDENTITY; container refs are
   identified by their label (labels are unique in a manager) *)
Fixpoint root_label (t : term) : option pystr :=
  match t with
  | TTop l _ => Some l
  | TItem o _ | TAttr o _ => root_label o
  | _ => None
  end.

Definition owned_by (name : pystr) (d : taskdef) : bool :=
  match root_label (fst d) with Some l => pystr_eqb l name | None => false end.

(* iter_expr_tasks_owner: the ExprTasks rooted in the named container, in dict order *)
Definition select_owner (name : pystr) (tasks : list taskdef) : list taskdef := filter (owned_by name) tasks.

(* mgr.copy_expr_from(src, name, bindings, overwrite) *)
Definition copy_expr_from (fuel : nat) (st : mstate) (src : list taskdef) (name : pystr)
  (binds : list (pystr * term)) (overwrite : bool) : option mstate :=
  mstep fuel st (MCopy overwrite (select_owner name src) binds).
