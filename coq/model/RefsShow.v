(* Printing, equality and hashing of xdeps references, as interpreters of the
   tables regenerated from xdeps/refs.py (coq/gen/GenRefsRepr.v).

   [interp] is generic in the output alphabet: instantiated with code points
   it is Python's repr(ref) ([show]); coq/model/RefsPrint.v instantiates it with
   tokens ([show_tokens]).  Definitions only. *)
From Coq Require Import List Bool ZArith NArith.
From XD Require Import model.RefSyntax model.ReprSyntax gen.GenRefsRepr lib.PyStr.
Import ListNotations.
Open Scope N_scope.

(* --------------------------------------------------------------- interpreter *)

Section Interp.
  Context {A : Type}.

  (* how the pieces of a template are written in the output alphabet *)
  Record writer := {
    w_lit : pystr -> list A;                 (* literal text of the f-string *)
    w_name : pystr -> list A;                (* a str used as is: container label *)
    w_opstr : pystr -> list A;               (* _op_str *)
    w_fname : pystr -> list A;               (* __name__ of a function *)
    w_kw : pystr -> list A;                  (* keyword of a call *)
    w_const : conv -> lit -> list A;         (* str() / repr() of a plain constant *)
    w_starts : list A -> pystr -> bool       (* text.startswith(s) *)
  }.
  Variable W : writer.

  Record shown := { sh_str : list A; sh_repr : list A; sh_isref : bool }.

  Inductive fval :=
  | VNone
  | VRawStr (s : pystr)
  | VOne (x : shown)
  | VMany (l : list shown)
  | VKw (l : list (pystr * shown))
  | VFn (f : N).

  Definition fenv := field -> fval.

  Definition get_conv (c : conv) (x : shown) : list A :=
    match c with CvStr => sh_str x | CvRepr => sh_repr x end.

  Fixpoint eval_cond (cls : N) (env : fenv) (c : cond) : bool :=
    match c with
    | COpStrIs s => match op_str cls with Some t => pystr_eqb s t | None => false end
    | CIsRef f => match env f with VOne x => sh_isref x | _ => false end
    | CStrStarts f s => match env f with VOne x => w_starts W (sh_str x) s | _ => false end
    | COpModuleIs s =>
        match env FOp with
        | VFn f => match builtin_fn f with Some (m, _) => pystr_eqb m s | None => false end
        | _ => false
        end
    | CNot c => negb (eval_cond cls env c)
    | CAnd a b => eval_cond cls env a && eval_cond cls env b
    end.

  Definition jpart_items (env : fenv) (p : jpart) : list (list A) :=
    match p with
    | JOne c f => match env f with VOne x => [get_conv c x] | _ => [] end
    | JEach c f => match env f with VMany l => map (get_conv c) l | _ => [] end
    | JEachKw mid c f =>
        match env f with
        | VKw l => map (fun kx => w_kw W (fst kx) ++ w_lit W mid ++ get_conv c (snd kx)) l
        | _ => []
        end
    end.

  Definition interp_atom (cls : N) (env : fenv) (a : atomseg) : list A :=
    match a with
    | ALit s => w_lit W s
    | ARaw f => match env f with VRawStr s => w_name W s | _ => [] end
    | AConv c f => match env f with VOne x => get_conv c x | _ => [] end
    | AOpStr => match op_str cls with Some s => w_opstr W s | None => [] end
    | AOpSymbol =>
        (* OPERATOR_SYMBOLS has only functions of the operator module as keys
           (checked by the translator), so .get falls back to __name__ *)
        match env FOp with
        | VFn f => match builtin_fn f with Some (_, nm) => w_fname W nm | None => [] end
        | _ => []
        end
    | AFuncName => []       (* __name__ of a plain function object: outside the model *)
    | AJoin sep parts => join (w_lit W sep) (flat_map (jpart_items env) parts)
    end.

  Definition interp_seg (cls : N) (env : fenv) (s : seg) : list A :=
    match s with
    | SAtom a => interp_atom cls env a
    | SIf c th el => flat_map (interp_atom cls env) (if eval_cond cls env c then th else el)
    end.

  Definition run_tpl (cls : N) (env : fenv) : list A :=
    match repr_tpl cls with
    | Some segs => flat_map (interp_seg cls env) segs
    | None => []
    end.

  Definition env1 (f1 : field) (v1 : fval) : fenv :=
    fun f => match f, f1 with
             | FKey, FKey | FOwner, FOwner | FManager, FManager | FLhs, FLhs | FRhs, FRhs | FArg, FArg
             | FOp, FOp | FParams, FParams | FFunc, FFunc | FArgs, FArgs | FKwargs, FKwargs => v1
             | _, _ => VNone
             end.

  Definition env_or (a b : fenv) : fenv := fun f => match a f with VNone => b f | v => v end.

  Definition sh_const (v : lit) : shown :=
    {| sh_str := w_const W CvStr v; sh_repr := w_const W CvRepr v; sh_isref := false |}.

  Fixpoint show_with (t : term) : list A :=
    let sh := fun x : term =>
                match x with
                | TConst v => sh_const v
                | _ => let s := show_with x in {| sh_str := s; sh_repr := s; sh_isref := true |}
                end in
    match t with
    | TConst v => w_const W CvRepr v
    | TTop l oa => run_tpl (if oa then cls_ObjectAttrRef else cls_Ref) (env1 FKey (VRawStr l))
    | TItem o k => run_tpl cls_ItemRef (env_or (env1 FOwner (VOne (sh o))) (env1 FKey (VOne (sh k))))
    | TAttr o k => run_tpl cls_AttrRef (env_or (env1 FOwner (VOne (sh o))) (env1 FKey (VOne (sh k))))
    | TBin c l r => run_tpl c (env_or (env1 FLhs (VOne (sh l))) (env1 FRhs (VOne (sh r))))
    | TUn c a => run_tpl c (env1 FArg (VOne (sh a)))
    | TLiteral v => run_tpl cls_LiteralExpr (env1 FArg (VOne (sh_const v)))
    | TBuiltin f a ps =>
        run_tpl cls_BuiltinRef
          (env_or (env1 FOp (VFn f)) (env_or (env1 FArg (VOne (sh a))) (env1 FParams (VMany (map sh ps)))))
    | TCall f args kw =>
        run_tpl cls_CallRef
          (env_or (env1 FFunc (VOne (sh f)))
             (env_or (env1 FArgs (VMany (map sh args)))
                (env1 FKwargs (VKw (map (fun p => (fst p, sh (snd p))) kw)))))
    end.
End Interp.

(* ------------------------------------------------------- repr(ref) as text *)

Section Show.
  Variable printable : N -> bool.
  Variable repr_float : N -> pystr.

  Definition char_writer : writer (A := N) :=
    {| w_lit := fun s => s; w_name := fun s => s; w_opstr := fun s => s; w_fname := fun s => s;
       w_kw := fun s => s;
       w_const := fun c v => match c with CvStr => str_lit printable repr_float v
                                        | CvRepr => repr_lit printable repr_float v end;
       w_starts := fun text s => starts_with s text |}.

  Definition show (t : term) : pystr := show_with char_writer t.

  (* BaseRef.__eq__ *)
  Definition eq_model (a b : term) : bool :=
    match eq_impl with EqStrStr => pystr_eqb (show a) (show b) end.
End Show.

(* -------------------------------------------------------------- access paths *)

Inductive step := SItem (k : lit) | SAttr (name : pystr).
Record path := { p_label : pystr; p_steps : list step }.

Section Paths.
  (* the manager asserts that a label is bound once: to a Ref or to an ObjectAttrRef *)
  Variable kind_of : pystr -> bool.

  Definition step_term (t : term) (s : step) : term :=
    match s with
    | SItem k => TItem t (TConst k)
    | SAttr n => TAttr t (TConst (LStr n))
    end.

  Definition term_of_path (p : path) : term :=
    fold_left step_term (p_steps p) (TTop (p_label p) (kind_of (p_label p))).
End Paths.

Definition is_alpha_ (c : N) : bool :=
  ((65 <=? c) && (c <=? 90)) || ((97 <=? c) && (c <=? 122)) || (c =? 95).

Section PathText.
  Variable printable : N -> bool.
  Variable repr_float : N -> pystr.
  (* identifier characters beyond ASCII (Unicode XID classes: not modelled) *)
  Variable xid : N -> bool.

  Definition id_char (c : N) : bool :=
    if c <? 128 then is_alpha_ c || is_digit c else xid c.

  Definition is_ident (s : pystr) : bool :=
    match s with
    | [] => false
    | c :: _ => forallb id_char s && negb (is_digit c)
    end.

  Definition wf_step (s : step) : bool :=
    match s with
    | SItem k => wf_key k
    | SAttr n => is_ident n
    end.

  Definition wf_path (p : path) : bool := is_ident (p_label p) && forallb wf_step (p_steps p).

  Definition show_step (s : step) : pystr :=
    match s with
    | SItem k => 91 :: repr_lit printable repr_float k ++ [93]
    | SAttr n => 46 :: n
    end.

  Definition show_path (p : path) : pystr := p_label p ++ flat_map show_step (p_steps p).

  (* the parser of printed paths: floats stay text *)
  Inductive rstep := RSItem (k : rkey) | RSAttr (name : pystr).

  Definition raw_step (s : step) : rstep :=
    match s with
    | SItem k => RSItem (raw_key printable repr_float k)
    | SAttr n => RSAttr n
    end.

  Fixpoint parse_steps (fuel : nat) (n : nat) (s : list N) : option (list rstep) :=
    match n with
    | O => None
    | S n' =>
      match s with
      | [] => Some []
      | c :: r =>
        if c =? 46 then
          let '(nm, r') := span id_char r in
          match nm with
          | [] => None
          | _ => match parse_steps fuel n' r' with Some l => Some (RSAttr nm :: l) | None => None end
          end
        else if c =? 91 then
          match parse_key fuel r with
          | Some (k, d :: r') =>
              if d =? 93 then match parse_steps fuel n' r' with Some l => Some (RSItem k :: l) | None => None end
              else None
          | _ => None
          end
        else None
      end
    end.

  Definition parse_path (fuel : nat) (s : list N) : option (pystr * list rstep) :=
    let '(lab, r) := span id_char s in
    match lab with
    | [] => None
    | _ => match parse_steps fuel fuel r with Some l => Some (lab, l) | None => None end
    end.

  Definition step_fuel (s : step) : nat := match s with SItem k => lit_fuel k | SAttr _ => 1 end.
  Definition path_fuel (p : path) : nat := S (length (p_steps p) + fold_right (fun s acc => step_fuel s + acc)%nat O (p_steps p)).
End PathText.

(* -------------------------------------------------------------------- hashing *)

(* what hash() of the tuple built in __cinit__ can see *)
Inductive hval :=
| HVStr (s : pystr)            (* type(self).__name__ *)
| HVCls (c : N)                (* the class object *)
| HVFn (f : N)                 (* a builtin function object *)
| HVLit (v : lit)              (* a plain constant *)
| HVObj (h : Z)                (* another reference: its own _hash *)
| HVMgr (m : N)                (* the manager object *)
| HVTup (l : list hval)
| HVMissing.

Section Hash.
  (* Python's hash of a tuple: any function *)
  Variable H : list hval -> Z.
  (* identity of the manager each node was built with, by position in the tree:
     two independently built references differ exactly in this *)
  Variable ann : list nat -> N.

  Inductive hfval := HOne (v : hval) | HAbsent.

  Definition hash_elems (cls : N) (pos : list nat) (env : field -> hval) : list hval :=
    match hash_tpl cls with
    | Some l => map (fun h => match h with
                              | HTypeName => match class_name cls with Some s => HVStr s | None => HVMissing end
                              | HClass => HVCls cls
                              | HField FManager => HVMgr (ann pos)
                              | HField f => env f
                              end) l
    | None => []
    end.

  Definition henv1 (f1 : field) (v1 : hval) (rest : field -> hval) : field -> hval :=
    fun f => match f, f1 with
             | FKey, FKey | FOwner, FOwner | FLhs, FLhs | FRhs, FRhs | FArg, FArg
             | FOp, FOp | FParams, FParams | FFunc, FFunc | FArgs, FArgs | FKwargs, FKwargs => v1
             | _, _ => rest f
             end.

  Definition hnone : field -> hval := fun _ => HVMissing.

  Fixpoint hash_tuple (pos : list nat) (t : term) {struct t} : list hval :=
    let hv := fun (i : nat) (x : term) =>
                match x with
                | TConst v => HVLit v
                | _ => HVObj (H (hash_tuple (pos ++ [i]) x))
                end in
    let hvs := fix go (i j : nat) (l : list term) : list hval :=
                 match l with
                 | [] => []
                 | x :: r => match x with
                             | TConst v => HVLit v
                             | _ => HVObj (H (hash_tuple (pos ++ [i; j]) x))
                             end :: go i (S j) r
                 end in
    let hkw := fix go (j : nat) (l : list (pystr * term)) : list hval :=
                 match l with
                 | [] => []
                 | (k, x) :: r => HVTup [HVLit (LStr k);
                                         match x with
                                         | TConst v => HVLit v
                                         | _ => HVObj (H (hash_tuple (pos ++ [3%nat; j]) x))
                                         end] :: go (S j) r
                 end in
    match t with
    | TConst v => [HVLit v]
    | TTop l oa => hash_elems (if oa then cls_ObjectAttrRef else cls_Ref) pos (henv1 FKey (HVLit (LStr l)) hnone)
    | TItem o k => hash_elems cls_ItemRef pos (henv1 FOwner (hv 0%nat o) (henv1 FKey (hv 1%nat k) hnone))
    | TAttr o k => hash_elems cls_AttrRef pos (henv1 FOwner (hv 0%nat o) (henv1 FKey (hv 1%nat k) hnone))
    | TBin c l r => hash_elems c pos (henv1 FLhs (hv 0%nat l) (henv1 FRhs (hv 1%nat r) hnone))
    | TUn c a => hash_elems c pos (henv1 FArg (hv 0%nat a) hnone)
    | TLiteral v => hash_elems cls_LiteralExpr pos (henv1 FArg (HVLit v) hnone)
    | TBuiltin f a ps =>
        hash_elems cls_BuiltinRef pos
          (henv1 FOp (HVFn f) (henv1 FArg (hv 0%nat a) (henv1 FParams (HVTup (hvs 1%nat 0%nat ps)) hnone)))
    | TCall f args kw =>
        hash_elems cls_CallRef pos
          (henv1 FFunc (hv 0%nat f) (henv1 FArgs (HVTup (hvs 2%nat 0%nat args)) (henv1 FKwargs (HVTup (hkw 0%nat kw)) hnone)))
    end.

  (* ref._hash *)
  Definition hash_term (t : term) : Z := H (hash_tuple [] t).
End Hash.
