(* Executable model of xdeps/refs.py: interpreters over the regenerated
   tables (model/RefTables.v, gen/GenRefs.v).  Definitions only (DESIGN 4.2).

     build    what Python-level operator application on references constructs
     value    _get_value, parametric in Python's own semantics
     pyeval   the SPECIFICATION: direct Python evaluation of the same
              expression on the operand values (independent of the tables)
     deps     _get_dependencies (threading of the optional `out` set)
     occ      the SPECIFICATION: item/attribute locations occurring in a term
     reduce / rebuild / roundtrip   __reduce__ and the constructor call pickle makes
*)
From Coq Require Import List ZArith NArith Bool.
From XD Require Import model.RefSyntax model.RefTables.
Import ListNotations.

(* ---------- decidable equalities on the table vocabulary ------------------ *)
Scheme Equality for binop.
Scheme Equality for unop.
Scheme Equality for bfun.
Scheme Equality for dkind.
Scheme Equality for field.
Scheme Equality for kind.
Scheme Equality for accessor.
Scheme Equality for argsel.

Definition all_binops : list binop :=
  [OAdd; OSub; OMul; OMatmul; OTruediv; OFloordiv; OMod; OPow; OAnd; OOr; OXor;
   OLt; OLe; OEq; ONe; OGe; OGt; ORshift; OLshift].
Definition all_unops : list unop := [UNeg; UPos; UInvert].
Definition all_bfuns : list bfun := [FDivmod; FRound; FTrunc; FFloor; FCeil; FAbs].

(* Python's 13 in-place operators *)
Definition inplace_ops : list binop :=
  [OAdd; OSub; OMul; OMatmul; OTruediv; OFloordiv; OMod; OPow; OLshift; ORshift; OAnd; OXor; OOr].

Definition is_cmp (op : binop) : bool :=
  match op with OLt | OLe | OGe | OGt => true | _ => false end.
Definition is_eqne (op : binop) : bool :=
  match op with OEq | ONe => true | _ => false end.
(* the operators whose ZeroDivisionError is documented to become NaN *)
Definition is_div (op : binop) : bool :=
  match op with OTruediv | OFloordiv | OMod => true | _ => false end.
(* Python's reflected comparison: a < b is answered by b > a *)
Definition mirror (op : binop) : binop :=
  match op with OLt => OGt | OLe => OGe | OGe => OLe | OGt => OLt | o => o end.

Fixpoint pystr_eqb (a b : pystr) : bool :=
  match a, b with
  | [], [] => true
  | x :: s, y :: t => N.eqb x y && pystr_eqb s t
  | _, _ => false
  end.

Fixpoint lit_eqb (a b : lit) : bool :=
  match a, b with
  | LInt x, LInt y => Z.eqb x y
  | LBool x, LBool y => Bool.eqb x y
  | LFloat x, LFloat y => N.eqb x y
  | LStr x, LStr y => pystr_eqb x y
  | LNone, LNone => true
  | LTup x, LTup y =>
      (fix go (l m : list lit) : bool :=
         match l, m with
         | [], [] => true
         | p :: l', q :: m' => lit_eqb p q && go l' m'
         | _, _ => false
         end) x y
  | _, _ => false
  end.

Section ListEqb.
  Context {A : Type} (f : A -> A -> bool).
  Fixpoint list_eqb (a b : list A) : bool :=
    match a, b with
    | [], [] => true
    | x :: s, y :: t => f x y && list_eqb s t
    | _, _ => false
    end.
End ListEqb.

Fixpoint term_eqb (a b : term) : bool :=
  match a, b with
  | TConst x, TConst y => lit_eqb x y
  | TTop l o, TTop l' o' => pystr_eqb l l' && Bool.eqb o o'
  | TItem o k, TItem o' k' => term_eqb o o' && term_eqb k k'
  | TAttr o k, TAttr o' k' => term_eqb o o' && term_eqb k k'
  | TBin c l r, TBin c' l' r' => N.eqb c c' && term_eqb l l' && term_eqb r r'
  | TUn c x, TUn c' x' => N.eqb c c' && term_eqb x x'
  | TLiteral x, TLiteral y => lit_eqb x y
  | TBuiltin f x ps, TBuiltin f' x' ps' =>
      N.eqb f f' && term_eqb x x' &&
      (fix go (l m : list term) : bool :=
         match l, m with
         | [], [] => true
         | p :: l', q :: m' => term_eqb p q && go l' m'
         | _, _ => false
         end) ps ps'
  | TCall f xs kw, TCall f' xs' kw' =>
      term_eqb f f' &&
      (fix go (l m : list term) : bool :=
         match l, m with
         | [], [] => true
         | p :: l', q :: m' => term_eqb p q && go l' m'
         | _, _ => false
         end) xs xs' &&
      (fix go (l m : list (pystr * term)) : bool :=
         match l, m with
         | [], [] => true
         | p :: l', q :: m' => pystr_eqb (fst p) (fst q) && term_eqb (snd p) (snd q) && go l' m'
         | _, _ => false
         end) kw kw'
  | _, _ => false
  end.

(* ---------- option / list plumbing ------------------------------------------ *)
Definition obind {A B} (a : option A) (f : A -> option B) : option B :=
  match a with Some x => f x | None => None end.
Notation "x <- a ;; b" := (obind a (fun x => b)) (at level 61, a at next level, right associativity).

Fixpoint omap {A B} (f : A -> option B) (l : list A) : option (list B) :=
  match l with
  | [] => Some []
  | x :: r => match f x, omap f r with Some y, Some ys => Some (y :: ys) | _, _ => None end
  end.

(* ---------- table lookups ------------------------------------------------------- *)
Section Lookup.
  Variable T : tables.

  Definition class_info_of (c : N) : option class_info :=
    find (fun ci => N.eqb (ci_id ci) c) (t_classes T).
  Definition kind_of (c : N) : option kind := option_map ci_kind (class_info_of c).
  Definition kind_is (c : N) (k : kind) : bool :=
    match kind_of c with Some k' => kind_beq k k' | None => false end.
  (* the class that carries a kind by name: the first one in source order
     (a subclass is always defined after its base) *)
  Definition special (k : kind) : option N :=
    option_map ci_id (find (fun ci => kind_beq (ci_kind ci) k) (t_classes T)).

  Definition dunder_bin (op : binop) (d : dkind) : option ctor_call :=
    option_map snd (find (fun e => binop_beq (fst (fst e)) op && dkind_beq (snd (fst e)) d) (t_dunder_bin T)).
  Definition dunder_un (op : unop) : option ctor_call :=
    option_map snd (find (fun e => unop_beq (fst e) op) (t_dunder_un T)).
  Definition dunder_builtin (f : bfun) : option builtin_entry :=
    option_map snd (find (fun e => bfun_beq (fst e) f) (t_dunder_builtin T)).
  Definition builtin_fn (n : N) : option bfun :=
    option_map snd (find (fun e => N.eqb (fst e) n) (t_builtin_fns T)).
  Definition class_bin (c : N) : option bin_sem :=
    option_map snd (find (fun e => N.eqb (fst e) c) (t_class_bin T)).
  Definition class_un (c : N) : option un_sem :=
    option_map snd (find (fun e => N.eqb (fst e) c) (t_class_un T)).
  Definition inplace_of (op : binop) : option (option inplace_entry) :=
    option_map snd (find (fun e => binop_beq (fst e) op) (t_inplace T)).
  Definition deps_of (c : N) : option traversal :=
    option_map snd (find (fun e => N.eqb (fst (fst e)) c) (t_deps T)).
  Definition reduce_of (c : N) : option (list field) :=
    option_map snd (find (fun e => N.eqb (fst (fst e)) c) (t_reduce T)).
  Definition cinit_of (c : N) : option (list (pystr * bool)) :=
    option_map snd (find (fun e => N.eqb (fst e) c) (t_cinit T)).
  Definition cinit_assign_of (c : N) : option (list (field * nat * bool)) :=
    option_map snd (find (fun e => N.eqb (fst e) c) (t_cinit_assign T)).

  (* accessor resolution along the MRO of the receiver's class *)
  Definition access_in (c : N) (a : accessor) : option N :=
    option_map snd (find (fun e => N.eqb (fst (fst e)) c && accessor_beq (snd (fst e)) a) (t_access T)).
  Fixpoint access_mro (mro : list N) (a : accessor) : option N :=
    match mro with
    | [] => None
    | c :: r => match access_in c a with Some k => Some k | None => access_mro r a end
    end.
  Definition access (c : N) (a : accessor) : option N :=
    ci <- class_info_of c ;; access_mro (ci_mro ci) a.

  (* the class of a term *)
  Definition class_of (t : term) : option N :=
    match t with
    | TConst _ => None
    | TTop _ false => special KRef
    | TTop _ true => special KObjectAttr
    | TItem _ _ => special KItem
    | TAttr _ _ => special KAttr
    | TBin c _ _ => Some c
    | TUn c _ => Some c
    | TLiteral _ => special KLiteral
    | TBuiltin _ _ _ => special KBuiltin
    | TCall _ _ _ => special KCall
    end.
End Lookup.

(* ---------- Python-level expressions ------------------------------------------------ *)
(* what the user writes: operators, builtins, calls, item/attribute access
   applied to container references and plain values *)
Inductive pexp :=
| PVal (v : lit)
| PTop (label : pystr) (objattr : bool)
| PItem (o k : pexp)                                 (* o[k] *)
| PAttr (o : pexp) (name : pystr)                    (* o.name *)
| PBin (op : binop) (l r : pexp)                     (* l op r;  OEq/ONe stand for l._eq(r) / l._neq(r) *)
| PUn (op : unop) (a : pexp)
| PBuiltin (f : bfun) (a : pexp) (ps : list pexp)    (* abs(a) round(a) round(a,n) divmod(a,b) math.trunc/floor/ceil(a) *)
| PCall (f : pexp) (args : list pexp) (kw : list (pystr * pexp)).

Section PexpInd.
  Variable P : pexp -> Prop.
  Hypothesis Hval : forall v, P (PVal v).
  Hypothesis Htop : forall l o, P (PTop l o).
  Hypothesis Hitem : forall o k, P o -> P k -> P (PItem o k).
  Hypothesis Hattr : forall o n, P o -> P (PAttr o n).
  Hypothesis Hbin : forall op l r, P l -> P r -> P (PBin op l r).
  Hypothesis Hun : forall op a, P a -> P (PUn op a).
  Hypothesis Hbuiltin : forall f a ps, P a -> Forall P ps -> P (PBuiltin f a ps).
  Hypothesis Hcall : forall f args kw, P f -> Forall P args -> Forall (fun p => P (snd p)) kw -> P (PCall f args kw).

  Fixpoint pexp_ind' (t : pexp) : P t :=
    match t with
    | PVal v => Hval v
    | PTop l o => Htop l o
    | PItem o k => Hitem o k (pexp_ind' o) (pexp_ind' k)
    | PAttr o n => Hattr o n (pexp_ind' o)
    | PBin op l r => Hbin op l r (pexp_ind' l) (pexp_ind' r)
    | PUn op a => Hun op a (pexp_ind' a)
    | PBuiltin f a ps =>
        Hbuiltin f a ps (pexp_ind' a)
          ((fix go (l : list pexp) : Forall P l :=
              match l with [] => Forall_nil _ | x :: r => Forall_cons _ (pexp_ind' x) (go r) end) ps)
    | PCall f args kw =>
        Hcall f args kw (pexp_ind' f)
          ((fix go (l : list pexp) : Forall P l :=
              match l with [] => Forall_nil _ | x :: r => Forall_cons _ (pexp_ind' x) (go r) end) args)
          ((fix go (l : list (pystr * pexp)) : Forall (fun p => P (snd p)) l :=
              match l with [] => Forall_nil _ | x :: r => Forall_cons _ (pexp_ind' (snd x)) (go r) end) kw)
    end.
End PexpInd.

(* ---------- build: what the overloads construct ------------------------------------------ *)
Section Build.
  Variable T : tables.

  Definition sel (a : argsel) (self other : term) : term :=
    match a with ASelf => self | AOther => other end.

  (* K(a, b): a two-argument constructor call of a BinOpExpr subclass; any
     other arity is a TypeError in Python *)
  Definition ctor_bin (c : ctor_call) (self other : term) : option term :=
    match cc_args c with
    | [a; b] => if kind_is T (cc_cls c) KBinOp then Some (TBin (cc_cls c) (sel a self other) (sel b self other)) else None
    | _ => None
    end.
  Definition ctor_un (c : ctor_call) (self : term) : option term :=
    match cc_args c with
    | [ASelf] => if kind_is T (cc_cls c) KUnaryOp then Some (TUn (cc_cls c) self) else None
    | _ => None
    end.

  (* Python's dispatch of  l op r  where at least one side is a reference:
     a reference on the left answers with its forward method (it never
     returns NotImplemented); otherwise the reference on the right answers with
     the reflected method -- for the ordering comparisons Python has no
     reflected dunder and calls the mirrored forward one (a < r is r > a). *)
  Definition apply_bin (op : binop) (l r : term) : option term :=
    if is_ref l then
      c <- dunder_bin T op (if is_eqne op then DMeth else DFwd) ;; ctor_bin c l r
    else if is_ref r then
      if is_eqne op then None
      else if is_cmp op then c <- dunder_bin T (mirror op) DFwd ;; ctor_bin c r l
      else c <- dunder_bin T op DRefl ;; ctor_bin c r l
    else None.

  Definition apply_un (op : unop) (a : term) : option term :=
    if is_ref a then c <- dunder_un T op ;; ctor_un c a else None.

  Definition mk_builtin (c : builtin_call) (self other : term) : option term :=
    match special T KBuiltin with
    | Some _ => Some (TBuiltin (bc_fn c) self (map (fun a => sel a self other) (bc_params c)))
    | None => None
    end.

  (* abs(a) / round(a) / math.trunc(a) ... call the dunder without argument,
     round(a, n) / divmod(a, b) with one *)
  Definition apply_builtin (f : bfun) (a : term) (ps : list term) : option term :=
    if is_ref a then
      e <- dunder_builtin T f ;;
      match ps with
      | [] =>
          if be_has_param e then
            match be_default e with
            | None => None                                  (* missing argument: TypeError *)
            | Some d =>
                match d, be_if_none e with
                | LNone, Some c => mk_builtin c a (TConst LNone)
                | _, _ => mk_builtin (be_main e) a (TConst d)
                end
            end
          else mk_builtin (be_main e) a (TConst LNone)
      | [p] =>
          if be_has_param e then
            match p, be_if_none e with
            | TConst LNone, Some _ => None                  (* round(x, None): outside the model *)
            | _, _ => mk_builtin (be_main e) a p
            end
          else None
      | _ => None
      end
    else None.

  Definition apply_access (a : accessor) (o k : term) : option term :=
    c <- class_of T o ;;
    b <- access T c a ;;
    match kind_of T b with
    | Some KItem => Some (TItem o k)
    | Some KAttr => Some (TAttr o k)
    | _ => None
    end.

  Definition apply_call (f : term) (args : list term) (kw : list (pystr * term)) : option term :=
    c <- class_of T f ;;
    b <- access T c AccCall ;;
    if kind_is T b KCall then Some (TCall f args kw) else None.

  Definition refused (n : pystr) : bool := existsb (pystr_eqb n) (t_special_names T).

  Fixpoint build (p : pexp) : option term :=
    match p with
    | PVal v => Some (TConst v)
    | PTop l o => Some (TTop l o)
    | PItem o k => o' <- build o ;; k' <- build k ;; apply_access AccGetitem o' k'
    | PAttr o n =>
        (* __getattr__ raises AttributeError for the names listed in special_methods *)
        if refused n then None else o' <- build o ;; apply_access AccGetattr o' (TConst (LStr n))
    | PBin op l r => l' <- build l ;; r' <- build r ;; apply_bin op l' r'
    | PUn op a => a' <- build a ;; apply_un op a'
    | PBuiltin f a ps =>
        a' <- build a ;;
        ps' <- (fix go (l : list pexp) : option (list term) :=
                  match l with
                  | [] => Some []
                  | x :: r => match build x, go r with Some y, Some ys => Some (y :: ys) | _, _ => None end
                  end) ps ;;
        apply_builtin f a' ps'
    | PCall f args kw =>
        f' <- build f ;;
        args' <- (fix go (l : list pexp) : option (list term) :=
                    match l with
                    | [] => Some []
                    | x :: r => match build x, go r with Some y, Some ys => Some (y :: ys) | _, _ => None end
                    end) args ;;
        kw' <- (fix go (l : list (pystr * pexp)) : option (list (pystr * term)) :=
                  match l with
                  | [] => Some []
                  | x :: r => match build (snd x), go r with Some y, Some ys => Some ((fst x, y) :: ys) | _, _ => None end
                  end) kw ;;
        apply_call f' args' kw'
    end.
End Build.

(* ---------- value: _get_value, parametric in Python ------------------------------------------ *)
Inductive res (V E : Type) := Ok (v : V) | Err (e : E).
Arguments Ok {V E} v.
Arguments Err {V E} e.

Definition rbind {V W E} (a : res V E) (f : V -> res W E) : res W E :=
  match a with Ok v => f v | Err e => Err e end.

Section Value.
  Variables V E : Type.
  Variable of_lit : lit -> V.
  Variable pyop : binop -> V -> V -> res V E.          (* a op b evaluated by Python *)
  Variable pyun : unop -> V -> res V E.
  Variable pybuiltin : bfun -> list V -> res V E.      (* abs / round / divmod / math.trunc / floor / ceil *)
  Variable pycall : V -> list V -> list (pystr * V) -> res V E.
  Variable getitem getattr : V -> V -> res V E.
  Variable nan : V.                                    (* float('nan') *)
  Variable is_zde : E -> bool.                         (* ZeroDivisionError *)
  Variable broken : E.                                 (* a class the tables do not describe *)

  Definition env := pystr -> V.                        (* the top-level containers *)

  (* the one interpreted deviation: ZeroDivisionError becomes NaN *)
  Definition nanify (r : res V E) : res V E :=
    match r with Err e => if is_zde e then Ok nan else r | _ => r end.
  Definition nan_guard (op : binop) (r : res V E) : res V E :=
    if is_div op then nanify r else r.

  Variable T : tables.

  Fixpoint value (t : term) (en : env) : res V E :=
    match t with
    | TConst v => Ok (of_lit v)                        (* BaseRef._mk_value of a non-reference *)
    | TTop l _ => Ok (en l)
    | TItem o k => rbind (value o en) (fun vo => rbind (value k en) (fun vk => getitem vo vk))
    | TAttr o k => rbind (value o en) (fun vo => rbind (value k en) (fun vk => getattr vo vk))
    | TBin c l r =>
        match class_bin T c with
        | None => Err broken
        | Some s =>
            let fld f := match f with FLhs => Some l | FRhs => Some r | _ => None end in
            match fld (bs_left s), fld (bs_right s) with
            | Some a, Some b =>
                rbind (value l en) (fun vl => rbind (value r en) (fun vr =>
                  let va := match bs_left s with FLhs => vl | _ => vr end in
                  let vb := match bs_right s with FLhs => vl | _ => vr end in
                  let x := pyop (bs_op s) va vb in
                  if bs_guard s then nanify x else x))
            | _, _ => Err broken
            end
        end
    | TUn c a =>
        match class_un T c with
        | None => Err broken
        | Some s => match us_arg s with
                    | FArg => rbind (value a en) (fun va => pyun (us_op s) va)
                    | _ => Err broken
                    end
        end
    | TLiteral v => Ok (of_lit v)
    | TBuiltin op a ps =>
        match builtin_fn T op with
        | None => Err broken
        | Some f =>
            rbind (value a en) (fun va =>
            rbind ((fix go (l : list term) : res (list V) E :=
                      match l with
                      | [] => Ok []
                      | x :: r => rbind (value x en) (fun v => rbind (go r) (fun vs => Ok (v :: vs)))
                      end) ps) (fun vps => pybuiltin f (va :: vps)))
        end
    | TCall f args kw =>
        rbind (value f en) (fun vf =>
        rbind ((fix go (l : list term) : res (list V) E :=
                  match l with
                  | [] => Ok []
                  | x :: r => rbind (value x en) (fun v => rbind (go r) (fun vs => Ok (v :: vs)))
                  end) args) (fun vargs =>
        rbind ((fix go (l : list (pystr * term)) : res (list (pystr * V)) E :=
                  match l with
                  | [] => Ok []
                  | x :: r => rbind (value (snd x) en) (fun v => rbind (go r) (fun vs => Ok ((fst x, v) :: vs)))
                  end) kw) (fun vkw => pycall vf vargs vkw)))
    end.

  (* SPECIFICATION -- Python applied directly to the operand values.  No table
     is consulted.  `c.name` on an ObjectAttrRef container is item access
     (that class's documented purpose). *)
  Fixpoint pyeval (p : pexp) (en : env) : res V E :=
    match p with
    | PVal v => Ok (of_lit v)
    | PTop l _ => Ok (en l)
    | PItem o k => rbind (pyeval o en) (fun vo => rbind (pyeval k en) (fun vk => getitem vo vk))
    | PAttr o n =>
        rbind (pyeval o en) (fun vo =>
          match o with
          | PTop _ true => getitem vo (of_lit (LStr n))
          | _ => getattr vo (of_lit (LStr n))
          end)
    | PBin op l r =>
        rbind (pyeval l en) (fun vl => rbind (pyeval r en) (fun vr => nan_guard op (pyop op vl vr)))
    | PUn op a => rbind (pyeval a en) (fun va => pyun op va)
    | PBuiltin f a ps =>
        rbind (pyeval a en) (fun va =>
        rbind ((fix go (l : list pexp) : res (list V) E :=
                  match l with
                  | [] => Ok []
                  | x :: r => rbind (pyeval x en) (fun v => rbind (go r) (fun vs => Ok (v :: vs)))
                  end) ps) (fun vps => pybuiltin f (va :: vps)))
    | PCall f args kw =>
        rbind (pyeval f en) (fun vf =>
        rbind ((fix go (l : list pexp) : res (list V) E :=
                  match l with
                  | [] => Ok []
                  | x :: r => rbind (pyeval x en) (fun v => rbind (go r) (fun vs => Ok (v :: vs)))
                  end) args) (fun vargs =>
        rbind ((fix go (l : list (pystr * pexp)) : res (list (pystr * V)) E :=
                  match l with
                  | [] => Ok []
                  | x :: r => rbind (pyeval (snd x) en) (fun v => rbind (go r) (fun vs => Ok ((fst x, v) :: vs)))
                  end) kw) (fun vkw => pycall vf vargs vkw)))
    end.

  (* ---- in-place operators:  target op= other ------------------------------------------
     Python evaluates  tmp = target.__iop__(other)  and assigns tmp; when the
     dunder does not exist it falls back to target.__op__(other).
       cur   : the expression currently attached to the target (target._expr)
       old   : the target's current plain value
     The result is either a new expression or a plain value. *)
  Inductive inpl_res := IExpr (t : term) | IVal (v : res V E).

  Definition combine (op : binop) (a b : term) : option inpl_res :=
    match a, b with
    | TConst x, TConst y => Some (IVal (pyop op (of_lit x) (of_lit y)))
    | _, _ => option_map IExpr (apply_bin T op a b)
    end.

  Definition inplace (op : binop) (target : term) (cur : option term) (old : lit) (other : term) : option inpl_res :=
    match inplace_of T op with
    | None => None
    | Some None => option_map IExpr (apply_bin T op target other)
    | Some (Some e) =>
        match cur with
        | Some ex => if ie_expr_self_first e then combine (ie_expr_op e) ex other else combine (ie_expr_op e) other ex
        | None => if ie_val_self_first e then combine (ie_val_op e) (TConst old) other
                  else combine (ie_val_op e) other (TConst old)
        end
    end.

  Definition assigned (r : inpl_res) (en : env) : res V E :=
    match r with IExpr t => value t en | IVal v => v end.

  (* SPECIFICATION of  target op= other *)
  Definition inplace_spec (op : binop) (cur : option term) (old : lit) (other : term) (en : env) : res V E :=
    match cur with
    | Some ex => rbind (value ex en) (fun ve => rbind (value other en) (fun vo => nan_guard op (pyop op ve vo)))
    | None =>
        match other with
        | TConst k => pyop op (of_lit old) (of_lit k)                  (* plain Python on plain values *)
        | _ => rbind (value other en) (fun vo => nan_guard op (pyop op (of_lit old) vo))
        end
    end.
End Value.

Arguments IExpr {V E} t.
Arguments IVal {V E} v.

(* ---------- dependencies -------------------------------------------------------------------- *)
(* the `out` argument: None is Python's None, Some s a set (as a list) *)
Definition acc := option (list term).
(* outer None: the call raises;  Some None: it returns None;  Some (Some s): a set *)
Definition dres := option acc.
Definition dfun := acc -> dres.

(* what the traversal sees in a field of the node *)
Inductive fchild :=
| C1 (isref : bool) (f : dfun)                 (* a single object *)
| CList (pairs : bool) (l : list (bool * dfun))(* a tuple of objects / of (name, object) pairs *)
| CNone.                                       (* not an object with dependencies: op, manager, missing *)

Definition call_child (isref guarded : bool) (f : dfun) (cur : acc) : option acc :=
  if isref then
    match cur with
    | None => match f None with Some _ => Some None | None => None end   (* result discarded *)
    | Some s => match f (Some s) with Some (Some s') => Some (Some s') | _ => None end
    end
  else if guarded then Some cur else None.     (* no _get_dependencies on a plain value *)

Fixpoint call_each (guarded : bool) (l : list (bool * dfun)) (cur : acc) : option acc :=
  match l with
  | [] => Some cur
  | (isr, f) :: r => match call_child isr guarded f cur with Some c => call_each guarded r c | None => None end
  end.

Definition run_step (self : term) (child : field -> fchild) (st : dstep) (cur : acc) : option acc :=
  match st with
  | DField f g => match child f with C1 isr fn => call_child isr g fn cur | _ => None end
  | DEach f g =>
      match child f with
      | CList false l => call_each g l cur
      | CList true l => if g then Some cur else match l with [] => Some cur | _ => None end
      | _ => None
      end
  | DEachSnd f g =>
      match child f with
      | CList true l => call_each g l cur
      | CList false [] => Some cur
      | _ => None
      end
  | DAddSelf => match cur with Some s => Some (Some (s ++ [self])) | None => None end
  end.

Fixpoint run_steps (self : term) (child : field -> fchild) (sts : list dstep) (cur : acc) : option acc :=
  match sts with
  | [] => Some cur
  | st :: r => match run_step self child st cur with Some c => run_steps self child r c | None => None end
  end.

Definition run_trav (tr : traversal) (self : term) (child : field -> fchild) (out : acc) : dres :=
  let cur0 := if tr_init tr then Some (match out with Some s => s | None => [] end) else out in
  match run_steps self child (tr_steps tr) cur0 with
  | None => None
  | Some cur =>
      match tr_ret tr with
      | ROut => Some cur
      | ROutOrSet => Some (Some (match cur with Some s => s | None => [] end))
      | RCallee f => match child f with
                     | C1 true fn => fn cur
                     | _ => None
                     end
      end
  end.

Section Deps.
  Variable T : tables.

  Definition node_deps (t : term) (child : field -> fchild) : dfun :=
    fun out =>
      match class_of T t with
      | None => None
      | Some c => match deps_of T c with
                  | None => None
                  | Some tr => run_trav tr t child out
                  end
      end.

  Fixpoint deps_acc (t : term) : dfun :=
    match t with
    | TConst _ => fun _ => None
    | TTop l _ =>
        node_deps t (fun f => match f with
                              | FOwner => C1 false (fun _ => None)
                              | FKey => C1 false (fun _ => None)
                              | _ => CNone end)
    | TItem o k | TAttr o k =>
        node_deps t (fun f => match f with
                              | FOwner => C1 (is_ref o) (deps_acc o)
                              | FKey => C1 (is_ref k) (deps_acc k)
                              | _ => CNone end)
    | TBin _ l r =>
        node_deps t (fun f => match f with
                              | FLhs => C1 (is_ref l) (deps_acc l)
                              | FRhs => C1 (is_ref r) (deps_acc r)
                              | _ => CNone end)
    | TUn _ a =>
        node_deps t (fun f => match f with FArg => C1 (is_ref a) (deps_acc a) | _ => CNone end)
    | TLiteral _ =>
        node_deps t (fun f => match f with FArg => C1 false (fun _ => None) | _ => CNone end)
    | TBuiltin _ a ps =>
        let cps := map (fun p => (is_ref p, deps_acc p)) ps in
        node_deps t (fun f => match f with
                              | FArg => C1 (is_ref a) (deps_acc a)
                              | FParams => CList false cps
                              | _ => CNone end)
    | TCall fn args kw =>
        let cargs := map (fun p => (is_ref p, deps_acc p)) args in
        let ckw := map (fun p => (is_ref (snd p), deps_acc (snd p))) kw in
        node_deps t (fun f => match f with
                              | FFunc => C1 (is_ref fn) (deps_acc fn)
                              | FArgs => CList false cargs
                              | FKwargs => CList true ckw
                              | _ => CNone end)
    end.

  (* expr._get_dependencies() *)
  Definition deps (t : term) : dres := deps_acc t None.
End Deps.

(* SPECIFICATION: the item/attribute locations occurring anywhere in a term *)
Fixpoint occ (t : term) : list term :=
  match t with
  | TConst _ | TTop _ _ | TLiteral _ => []
  | TItem o k | TAttr o k => occ o ++ occ k ++ [t]
  | TBin _ l r => occ l ++ occ r
  | TUn _ a => occ a
  | TBuiltin _ a ps => occ a ++ flat_map occ ps
  | TCall f args kw => occ f ++ flat_map occ args ++ flat_map (fun p => occ (snd p)) kw
  end.

(* containers used as an operand (not merely as the owner of a location) *)
Fixpoint bare_tops (t : term) : list pystr :=
  match t with
  | TConst _ | TLiteral _ => []
  | TTop l _ => [l]
  | TItem o k | TAttr o k => (match o with TTop _ _ => [] | _ => bare_tops o end) ++ bare_tops k
  | TBin _ l r => bare_tops l ++ bare_tops r
  | TUn _ a => bare_tops a
  | TBuiltin _ a ps => bare_tops a ++ flat_map bare_tops ps
  | TCall f args kw => bare_tops f ++ flat_map bare_tops args ++ flat_map (fun p => bare_tops (snd p)) kw
  end.

(* ---------- pickling: __reduce__ and the constructor call -------------------------------------- *)
Inductive fval :=
| FV1 (t : term) | FVlist (l : list term) | FVkw (l : list (pystr * term))
| FVop (n : N) | FVmgr | FVcont (label : pystr) (objattr : bool) | FVnone.

Definition get_field (t : term) (f : field) : fval :=
  match t, f with
  | TTop l o, FOwner => FVcont l o
  | TTop l _, FKey => FV1 (TConst (LStr l))
  | TTop _ _, FManager => FVmgr
  | TItem o _, FOwner | TAttr o _, FOwner => FV1 o
  | TItem _ k, FKey | TAttr _ k, FKey => FV1 k
  | TItem _ _, FManager | TAttr _ _, FManager => FVmgr
  | TBin _ l _, FLhs => FV1 l
  | TBin _ _ r, FRhs => FV1 r
  | TUn _ a, FArg => FV1 a
  | TLiteral v, FArg => FV1 (TConst v)
  | TBuiltin _ a _, FArg => FV1 a
  | TBuiltin op _ _, FOp => FVop op
  | TBuiltin _ _ ps, FParams => FVlist ps
  | TCall fn _ _, FFunc => FV1 fn
  | TCall _ args _, FArgs => FVlist args
  | TCall _ _ kw, FKwargs => FVkw kw
  | _, _ => FVnone
  end.

(* the attributes each kind of node consists of *)
Definition fields_of_kind (k : kind) : list field :=
  match k with
  | KRef | KObjectAttr | KAttr | KItem => [FOwner; FKey; FManager]
  | KBinOp => [FLhs; FRhs]
  | KUnaryOp | KLiteral => [FArg]
  | KBuiltin => [FArg; FOp; FParams]
  | KCall => [FFunc; FArgs; FKwargs]
  | _ => []
  end.

Definition mk_term (k : kind) (c : N) (fld : field -> fval) : option term :=
  match k with
  | KRef | KObjectAttr =>
      match fld FOwner, fld FKey, fld FManager with
      | FVcont l o, FV1 (TConst (LStr l')), FVmgr =>
          if pystr_eqb l l' && Bool.eqb o (match k with KObjectAttr => true | _ => false end)
          then Some (TTop l o) else None
      | _, _, _ => None
      end
  | KItem => match fld FOwner, fld FKey, fld FManager with FV1 o, FV1 x, FVmgr => Some (TItem o x) | _, _, _ => None end
  | KAttr => match fld FOwner, fld FKey, fld FManager with FV1 o, FV1 x, FVmgr => Some (TAttr o x) | _, _, _ => None end
  | KBinOp => match fld FLhs, fld FRhs with FV1 l, FV1 r => Some (TBin c l r) | _, _ => None end
  | KUnaryOp => match fld FArg with FV1 a => Some (TUn c a) | _ => None end
  | KLiteral => match fld FArg with FV1 (TConst v) => Some (TLiteral v) | _ => None end
  | KBuiltin => match fld FArg, fld FOp, fld FParams with FV1 a, FVop n, FVlist ps => Some (TBuiltin n a ps) | _, _, _ => None end
  | KCall => match fld FFunc, fld FArgs, fld FKwargs with FV1 f, FVlist a, FVkw kw => Some (TCall f a kw) | _, _, _ => None end
  | _ => None
  end.

Section Pickle.
  Variable T : tables.

  (* node.__reduce__()  ->  (type(node), (fields...)) *)
  Definition reduce (t : term) : option (N * list fval) :=
    c <- class_of T t ;; sig <- reduce_of T c ;; Some (c, map (get_field t) sig).

  Definition assign_of (asg : list (field * nat * bool)) (f : field) : option nat :=
    option_map (fun e => snd (fst e)) (find (fun e => field_beq (fst (fst e)) f) asg).

  (* the constructor call cls(args...): every __cinit__ of the chain stores its parameters *)
  Definition rebuild (r : N * list fval) : option term :=
    let '(c, args) := r in
    k <- kind_of T c ;;
    ps <- cinit_of T c ;;
    asg <- cinit_assign_of T c ;;
    if Nat.eqb (length args) (length ps) then
      mk_term k c (fun f => match assign_of asg f with
                            | Some i => nth i args FVnone
                            | None => FVnone end)
    else None.

  (* pickle copies an expression bottom-up: children first, then the node is
     rebuilt from the reduced tuple *)
  Definition renode (t : term) : option term := r <- reduce t ;; rebuild r.

  Fixpoint roundtrip (t : term) : option term :=
    match t with
    | TConst _ => Some t
    | TTop _ _ => renode t
    | TItem o k => o' <- roundtrip o ;; k' <- roundtrip k ;; renode (TItem o' k')
    | TAttr o k => o' <- roundtrip o ;; k' <- roundtrip k ;; renode (TAttr o' k')
    | TBin c l r => l' <- roundtrip l ;; r' <- roundtrip r ;; renode (TBin c l' r')
    | TUn c a => a' <- roundtrip a ;; renode (TUn c a')
    | TLiteral _ => renode t
    | TBuiltin op a ps =>
        a' <- roundtrip a ;;
        ps' <- (fix go (l : list term) : option (list term) :=
                  match l with
                  | [] => Some []
                  | x :: r => match roundtrip x, go r with Some y, Some ys => Some (y :: ys) | _, _ => None end
                  end) ps ;;
        renode (TBuiltin op a' ps')
    | TCall f args kw =>
        f' <- roundtrip f ;;
        args' <- (fix go (l : list term) : option (list term) :=
                    match l with
                    | [] => Some []
                    | x :: r => match roundtrip x, go r with Some y, Some ys => Some (y :: ys) | _, _ => None end
                    end) args ;;
        kw' <- (fix go (l : list (pystr * term)) : option (list (pystr * term)) :=
                  match l with
                  | [] => Some []
                  | x :: r => match roundtrip (snd x), go r with Some y, Some ys => Some ((fst x, y) :: ys) | _, _ => None end
                  end) kw ;;
        renode (TCall f' args' kw')
    end.

  (* a manager's definitions: (target, expression) in registration order *)
  Definition tasklist := list (term * term).
  Definition roundtrip_tasks (m : tasklist) : option tasklist :=
    omap (fun p => a <- roundtrip (fst p) ;; b <- roundtrip (snd p) ;; Some (a, b)) m.
End Pickle.
