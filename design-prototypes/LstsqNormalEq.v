From mathcomp Require Import all_ssreflect all_algebra.
Set Implicit Arguments. Unset Strict Implicit. Unset Printing Implicit Defensive.
Import GRing.Theory Num.Theory.
Local Open Scope ring_scope.
Section Lstsq.
Variables (R : realFieldType) (m n k : nat).
Variables (U : 'M[R]_(m,k)) (V : 'M[R]_(n,k)) (s : 'rV[R]_k) (keep : pred 'I_k).
Hypothesis HU : U^T *m U = 1%:M.
Hypothesis HV : V^T *m V = 1%:M.
Hypothesis Hs : forall i, keep i -> s 0 i != 0.
Definition sk : 'rV[R]_k := \row_i (if keep i then s 0 i else 0).
Definition sinv : 'rV[R]_k := \row_i (if keep i then (s 0 i)^-1 else 0).
Definition A := U *m diag_mx sk *m V^T.
Definition pinvb (b : 'cV[R]_m) := V *m diag_mx sinv *m U^T *m b.
Lemma diag_sk_sinv_sk : diag_mx sk *m diag_mx sinv *m diag_mx sk = diag_mx sk.
Proof.
rewrite !mulmx_diag; congr diag_mx; apply/rowP=> i; rewrite !mxE.
case: ifP => [/Hs h|_]; last by rewrite !mulr0.
by rewrite mulfV // mul1r.
Qed.
Lemma normal_eq b : A^T *m (A *m pinvb b - b) = 0.
Proof.
rewrite /A /pinvb mulmxBr; apply/eqP; rewrite subr_eq0; apply/eqP.
rewrite !trmx_mul trmxK tr_diag_mx !mulmxA.
rewrite -[V *m diag_mx sk *m U^T *m U]mulmxA HU mulmx1.
rewrite -[V *m diag_mx sk *m diag_mx sk *m V^T *m V]mulmxA HV mulmx1.
rewrite -[V *m diag_mx sk *m diag_mx sk *m diag_mx sinv]mulmxA.
rewrite -[V *m diag_mx sk *m (_ *m _)]mulmxA.
have -> : diag_mx sk *m (diag_mx sk *m diag_mx sinv) = diag_mx sk.
  rewrite !mulmx_diag; congr diag_mx; apply/rowP=> i; rewrite !mxE.
  case: ifP => [/Hs h|_]; last by rewrite !mulr0.
  by rewrite mulfV // mulr1.
by [].
Qed.
End Lstsq.
Print Assumptions normal_eq.
