import xdeps as xd, random, itertools, sys
from xdeps.tasks import Manager, ExprTask
from collections import Counter

def fixed_unregister(self, taskid):
    if self._tree_frozen: raise ValueError("frozen")
    task = self.tasks[taskid]
    for dep in task.dependencies:
        for target in task.targets:
            if target in self.rdeps[dep]:
                self.rdeps[dep].remove(target)
        for deptask in list(self.tartasks[dep]):
            if taskid in self.rtasks[deptask]:
                self.rtasks[deptask].remove(taskid)
        if taskid in self.deptasks[dep]:
            self.deptasks[dep].remove(taskid)
    for tar in task.targets:
        self.tartasks[tar].remove(taskid)
    if taskid in self.rtasks:
        del self.rtasks[taskid]
    del self.tasks[taskid]

def canon(m):
    rdeps=Counter(); dept=Counter(); tart=Counter(); rt=Counter()
    T=list(m.tasks.values())
    for A in T:
        for d in A.dependencies:
            dept[(d,A.taskid)]+=1
            for t in A.targets: rdeps[(d,t)]+=1
        for t in A.targets: tart[(t,A.taskid)]+=1
        for B in T:
            n=len(set(A.targets)&set(B.dependencies))
            if n: rt[(A.taskid,B.taskid)]+=n
    return rdeps,dept,tart,rt
def actual(m):
    out=[]
    for idx in (m.rdeps,m.deptasks,m.tartasks,m.rtasks):
        c=Counter()
        for k,rc in idx.items():
            for k2,n in rc.items(): c[(k,k2)]+=n
        out.append(c)
    return tuple(out)

def run(seed, patched):
    r=random.Random(seed)
    if patched: Manager.unregister=fixed_unregister
    m=Manager(); c={'n':{'p':{}}, 'l':[0]*4}; 
    for k in 'abcd': c[k]=1; c['n'][k]=1; c['n']['p'][k]=1
    c_=m.ref(c,'c')
    locs=[c_[k] for k in 'abcd']+[c_['n'][k] for k in 'abcd']+[c_['n']['p'][k] for k in 'abcd']+[c_['l'][i] for i in range(4)]
    for step in range(r.randrange(1,14)):
        t=r.choice(locs)
        try:
            if r.random()<0.65:
                e=r.choice(locs)
                for _ in range(r.randrange(3)): e=e+r.choice(locs)
                # avoid evaluation cycles: ignore errors
                m.set_value(t,e)
            else:
                m.set_value(t,r.randrange(10))
        except RecursionError: return 'rec'
        except KeyError as ex: return ('KeyError',step)
        if tuple(canon(m))!=actual(m): return ('mismatch',step)
    try: m.verify()
    except ValueError: return 'verify'
    return 'ok'
for patched in (False,True):
    res=Counter(str(run(s,patched)) if not isinstance(run(s,patched),tuple) else run(s,patched)[0] for s in range(3000))
    print("patched" if patched else "orig", dict(res))
