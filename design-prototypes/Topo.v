From Coq Require Import List NArith Bool Arith Lia.
Import ListNotations.

Section Topo.
Variable g : N -> list N.

Definition mem (x : N) (l : list N) : bool := existsb (N.eqb x) l.
Lemma mem_In x l : mem x l = true <-> In x l.
Proof. unfold mem. rewrite existsb_exists. split.
  - intros (y & Hy & E). apply N.eqb_eq in E. subst. exact Hy.
  - intros H. exists x. split; [exact H|apply N.eqb_refl]. Qed.
Lemma mem_nIn x l : mem x l = false <-> ~ In x l.
Proof. rewrite <- mem_In. destruct (mem x l); split; congruence. Qed.

(* state = (visited, out) ; out is the deque, head = left end *)
Definition st := (list N * list N)%type.

Fixpoint dfs (fuel : nat) (x : N) (s : st) : st :=
  match fuel with
  | 0 => s
  | S f =>
    if mem x (fst s) then s else
    let s' := fold_left (fun s y => dfs f y s) (g x) (x :: fst s, snd s) in
    (fst s', x :: snd s')
  end.

Definition dfs_list (fuel : nat) (ys : list N) (s : st) : st :=
  fold_left (fun s y => dfs fuel y s) ys s.

Definition toposort (fuel : nat) (start : list N) : list N :=
  snd (dfs_list fuel start ([], [])).

Inductive reach : N -> N -> Prop :=
| reach_refl x : reach x x
| reach_step x y z : In y (g x) -> reach y z -> reach x z.

Lemma reach_trans x y z : reach x y -> reach y z -> reach x z.
Proof. induction 1; eauto using reach. Qed.
Lemma reach_edge x y : In y (g x) -> reach x y.
Proof. intros; eapply reach_step; eauto using reach. Qed.

(* position-based "before" : u occurs strictly before v in l *)
Definition before (u v : N) (l : list N) : Prop :=
  exists l1 l2, l = l1 ++ u :: l2 /\ In v l2.

End Topo.
