From Coq Require Import ZArith Floats.PrimFloat.
From Flocq Require Import IEEE754.BinarySingleNaN.
From Flocq Require IEEE754.PrimFloat.
Module FP := Flocq.IEEE754.PrimFloat.
Open Scope float_scope.
Lemma sub_zero_r (x : float) : PrimFloat.is_nan x = false -> (x - zero)%float = x.
Proof.
  intros Hn. apply FP.Prim2B_inj. rewrite FP.sub_equiv.
  rewrite FP.zero_equiv, FP.Prim2B_B2Prim.
  rewrite FP.is_nan_equiv in Hn.
  destruct (FP.Prim2B x) as [s| s| |s m e H]; simpl in *; try reflexivity; try discriminate.
  destruct s; reflexivity.
Qed.
Print Assumptions sub_zero_r.
Eval vm_compute in (0x1.8p+1 - 0x1p-3)%float.
